import GA.Model.Fill
import GA.Lemmas.Tac
import GA.Lemmas.Attr
/-!
Obligations for `src/impl_const_default.rs` / `src/impl_zeroize.rs`.  The field *order* and the
field *names* are not pinned: what is demanded is that every declared field of each storage node is
initialised with the default of its own type.
-/
namespace GA.Bridge.Fill
open GA.Gen.Fill GA.Gen.Layout GA.Layout GA.Fill

/-- the initialiser given to a field is the constant default of that field's type -/
def initOk : FieldKind → Option InitKind → Bool
  | .child, some .childDefault => true
  | .child, some .inferred => true
  | .elem, some .elemDefault => true
  | .elem, some .inferred => true
  | .phantom, some .phantom => true
  | .phantom, some .inferred => true
  | .unit, some .inferred => true
  | _, _ => false

def literalOk (fields : List FieldKind) (names : List String) (inits : List (String × InitKind)) : Bool :=
  decide (names.length = fields.length) && (fields.zip names).all fun fn => initOk fn.1 (inits.lookup fn.2)

theorem even_literal_ok : literalOk evenFields evenFieldNames evenDefaultInit = true := by decide
theorem odd_literal_ok : literalOk oddFields oddFieldNames oddDefaultInit = true := by decide
theorem wrapper_literal_ok : literalOk [.child] wrapperFieldNames wrapperDefaultInit = true := by decide
@[ga_bridge] theorem constDefaultReturnsDEFAULT_eq : constDefaultReturnsDEFAULT = true := by bridge_bool [constDefaultReturnsDEFAULT]
@[ga_bridge] theorem zeroizeIsElementwiseOverSlice_eq : zeroizeIsElementwiseOverSlice = true := by bridge_bool [zeroizeIsElementwiseOverSlice]
end GA.Bridge.Fill
