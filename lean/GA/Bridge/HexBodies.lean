import GA.Gen.HexBodies
/-!
`src/hex.rs`: the thresholds, buffer sizes, the digit budget arithmetic and the alphabets are regenerated fragments
(`GA.Gen.Hex`); the *loop structure* around them — which buffer each strategy formats into, that the table encoder
writes digit pair `i` at `dst[2i], dst[2i+1]`, that the large-array path walks `chunks(buf.len() / 2)` and applies the
remaining digit budget to every chunk — is the hand-written skeleton of `GA.Model.Hex`.  This obligation says the
regenerated bodies are, token for token, the ones that skeleton was written against.
-/
namespace GA.Bridge.HexBodies
open GA.Gen.HexBodies

theorem bodies_are_the_modelled_ones : bodies = [
  ("hex_encode_fallback", "ifdst.len()<src.len()*2{unsafe{core::hint::unreachable_unchecked()};}letalphabet=matchUPPER{true=>b\"0123456789ABCDEF\",false=>b\"0123456789abcdef\",};dst.chunks_exact_mut(2).zip(src).for_each(|(s,c)|{s[0]=alphabet[(c>>4)asusize];s[1]=alphabet[(c&0xF)asusize];});"),
  ("hex_encode", "debug_assert!(dst.len()>=(src.len()*2));#[cfg(any(miri,not(feature=\"faster-hex\")))]hex_encode_fallback::<UPPER>(src,dst);#[cfg(all(feature=\"faster-hex\",not(miri)))]matchUPPER{true=>unsafe{faster_hex::hex_encode_upper(src,dst).unwrap_unchecked()},false=>unsafe{faster_hex::hex_encode(src,dst).unwrap_unchecked()},};"),
  ("generic_hex", "letmax_digits=N::USIZE*2;letmax_digits=matchf.precision(){Some(precision)ifprecision<max_digits=>precision,_=>max_digits,};letmax_bytes=(max_digits>>1)+(max_digits&1);letinput={ifmax_bytes>N::USIZE{unsafe{core::hint::unreachable_unchecked()};}&arr[..max_bytes]};ifN::USIZE<=1024{letmutbuf=GenericArray::<u8,Sum<N,N>>::default();ifN::USIZE<16{hex_encode_fallback::<UPPER>(arr,&mutbuf);}else{hex_encode::<UPPER>(input,&mutbuf);}f.write_str(unsafe{str::from_utf8_unchecked(buf.get_unchecked(..max_digits))})?;}else{letmutbuf=[0u8;2048];letmutdigits_left=max_digits;forchunkininput.chunks(1024){hex_encode::<UPPER>(chunk,&mutbuf);letn=min(chunk.len()*2,digits_left);f.write_str(unsafe{str::from_utf8_unchecked(buf.get_unchecked(..n))})?;digits_left-=n;}}Ok(())"),
  ("impl fmt::LowerHexforGenericArray<u8,N>::fmt", "generic_hex::<_,false>(self,f)"),
  ("impl fmt::UpperHexforGenericArray<u8,N>::fmt", "generic_hex::<_,true>(self,f)")] := by rfl

end GA.Bridge.HexBodies
