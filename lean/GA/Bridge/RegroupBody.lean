import GA.Gen.SeqBody
/-!
# Whole-body tie: the by-reference `flatten` / `unflatten` impls of src/sequence.rs (C11)
-/
namespace GA.Bridge.SeqBody
open GA.MemBody GA.Gen

/-- by-reference `flatten` (`N·M` elements; `K` carries `M`) and `unflatten` (`NM` elements; `K` carries `NM`): the receiver
    reference retyped — one view of the whole storage at its address, with the receiver's mutability -/
theorem regroupRef_body (n k i : Nat) :
    runViews false SeqBody.flattenRef ⟨n, k, i⟩ = .views [⟨0, n * k, false⟩] ∧
    runViews true SeqBody.flattenMut ⟨n, k, i⟩ = .views [⟨0, n * k, true⟩] ∧
    runViews false SeqBody.unflattenRef ⟨n, k, i⟩ = .views [⟨0, k, false⟩] ∧
    runViews true SeqBody.unflattenMut ⟨n, k, i⟩ = .views [⟨0, k, true⟩] := by
  refine ⟨?_, ?_, ?_, ?_⟩ <;>
    simp [runViews, SeqBody.flattenRef, SeqBody.flattenMut, SeqBody.unflattenRef, SeqBody.unflattenMut, vexec, vstep, lookupV,
      lookupVs, LX.eval, noAlias]

end GA.Bridge.SeqBody
