import GA.Bridge.Body
import GA.Bridge.Lib
import GA.Model.Ops
import GA.Lemmas.Own
/-!
Refinement obligations for the whole bodies of `GenericArray::try_from_iter` and
`FromIterator::from_iter` (src/lib.rs) with `IntrusiveArrayBuilder::{new, extend, is_full, finish}`
(src/internal.rs) inlined from their current source: interpreting the regenerated AST over a
scripted caller iterator gives exactly `GA.Own.tryFromIter` / `GA.Own.fromIter` — the model the C07
theorems (and the collect parts of C03/C04) are about.
-/
namespace GA.Bridge.BodyCollect
open GA.Body GA.Own GA.Bridge.Body

/-- the j-th `next()` still to come of a scripted iterator -/
def pollOf (s : Script) (j : Nat) : Poll :=
  if s.panicAt = some (s.k + j) then .panic
  else match s.answers[j]? with
    | some (some x) => .yield x
    | _ => .done

def advance (s : Script) : Script := { s with k := s.k + 1, answers := s.answers.tail }

theorem pollOf_advance (s : Script) (j : Nat) : pollOf (advance s) j = pollOf s (j + 1) := by
  unfold pollOf advance
  have e : s.k + 1 + j = s.k + (j + 1) := by omega
  simp only [e]
  cases s.answers with
  | nil => simp
  | cons a t => simp

/-- the fill loop over a scripted iterator: events, how it ended (0 = every slot written,
    1 = the source ended first, 2 = the source panicked), what was written, the script afterwards -/
def fillSpec : Nat → Script → List Nat → List Ev × Nat × List Nat × Script
  | 0, s, out => ([], 0, out, s)
  | rem + 1, s, out =>
    match pollOf s 0 with
    | .yield x =>
      let r := fillSpec rem (advance s) (out ++ [x])
      (.poll s.k :: .take s.k x :: r.1, r.2)
    | .done => ([.poll s.k], 1, out, advance s)
    | .panic => ([.poll s.k, .panic s.k], 2, out, advance s)

/-- the ownership model's fill loop, in terms of `fillSpec` -/
theorem own_fillLoop_eq : ∀ (rem : Nat) (s : Script) (out : List Nat),
    Own.fillLoop true true scriptSrc rem s out =
      (match (fillSpec rem s out).2.1 with
       | 0 => ((fillSpec rem s out).1, FillRes.full (fillSpec rem s out).2.2.1 (fillSpec rem s out).2.2.2)
       | 1 => ((fillSpec rem s out).1, FillRes.short (fillSpec rem s out).2.2.1 (fillSpec rem s out).2.2.2)
       | _ => ((fillSpec rem s out).1 ++ (fillSpec rem s out).2.2.1.map .drop, FillRes.panicked))
  | 0, s, out => by simp [Own.fillLoop, fillSpec]
  | rem + 1, s, out => by
    have ih := own_fillLoop_eq rem (advance s)
    by_cases hp : s.panicAt = some s.k
    · have hstep : scriptSrc.step s = .panic [.poll s.k, .panic s.k] (advance s) := by
        simp [scriptSrc, hp, advance]
      have hpo : pollOf s 0 = .panic := by simp [pollOf, hp]
      simp only [Own.fillLoop, hstep, fillSpec, hpo]
      simp [builderDrop, scriptSrc]
    · cases ha : s.answers with
      | nil =>
        have hstep : scriptSrc.step s = .done [.poll s.k] (advance s) := by
          simp [scriptSrc, hp, advance, ha]
        have hpo : pollOf s 0 = .done := by simp [pollOf, hp, ha]
        simp only [Own.fillLoop, hstep, fillSpec, hpo]
      | cons a t =>
        cases a with
        | none =>
          have hstep : scriptSrc.step s = .done [.poll s.k] (advance s) := by
            simp [scriptSrc, hp, advance, ha]
          have hpo : pollOf s 0 = .done := by simp [pollOf, hp, ha]
          simp only [Own.fillLoop, hstep, fillSpec, hpo]
        | some x =>
          have hstep : scriptSrc.step s = .yield [.poll s.k, .take s.k x] x (advance s) := by
            simp [scriptSrc, hp, advance, ha]
          have hpo : pollOf s 0 = .yield x := by simp [pollOf, hp, ha]
          simp only [Own.fillLoop, hstep, fillSpec, hpo, ih (out ++ [x])]
          generalize fillSpec rem (advance s) (out ++ [x]) = q
          obtain ⟨tr, tag, o, s'⟩ := q
          rcases tag with _ | _ | tag <;> simp

theorem exec_fillS (c : Ctx) (destFirst : Bool) (body k : S) (env : List V) (st : St) :
    exec c (.fillS destFirst body k) env st =
      match Body.fillLoop c destFirst (fillBody c body env) (positions .out 0 st.out.slots.length) st with
      | (tr, .ret _, st') =>
        let r := exec c k env st'
        (tr ++ r.1, r.2)
      | r => r := by
  simp only [exec]
  rfl

theorem set_fresh (outL : List Nat) (rem x : Nat) :
    (outL ++ List.replicate (rem + 1) 0).set outL.length x = (outL ++ [x]) ++ List.replicate rem 0 := by
  rw [List.set_append_right _ _ (Nat.le_refl _)]
  simp [List.replicate_succ]

theorem repl_set0 (rem x : Nat) : (List.replicate (rem + 1) 0).set 0 x = x :: List.replicate rem 0 := by
  simp [List.replicate_succ]

theorem erase_fresh (j rem : Nat) : (List.range' j (rem + 1)).erase j = List.range' (j + 1) rem := by
  rw [List.range'_succ]
  simp

/-- machine state while the builder is being filled: `outL` written, `rem` slots to go -/
def bst (selfO : O) (outL : List Nat) (rem calls : Nat) (fg : Bool) (polls : Nat) : St :=
  ⟨selfO, ⟨outL ++ List.replicate rem 0, 0, 0, outL.length, List.range' outL.length rem⟩, true, calls, fg, polls, false, {}⟩

theorem fill_loop_body (c : Ctx) (selfO : O) (calls : Nat) (fg : Bool) :
    ∀ (rem : Nat) (s : Script) (outL : List Nat), (∀ j, c.src (s.k + j) = pollOf s j) → outL.length + rem < word →
      Body.fillLoop c true (fillBody c (loopBodyOf Gen.Body.tryFromIter.body) [])
          ((List.range' outL.length rem).map (V.slot .out)) (bst selfO outL rem calls fg s.k)
        = ((fillSpec rem s outL).1, (if (fillSpec rem s outL).2.1 = 2 then R.panicked else R.ret .unit),
            bst selfO (fillSpec rem s outL).2.2.1 (outL.length + rem - (fillSpec rem s outL).2.2.1.length) calls fg
              (fillSpec rem s outL).2.2.2.k) := by
  intro rem
  induction rem with
  | zero => intro s outL _ _; simp [Body.fillLoop, fillSpec, bst]
  | succ rem ih =>
    intro s outL hsrc hw
    have h0 : c.src s.k = pollOf s 0 := by simpa using hsrc 0
    have hw1 : outL.length + 1 < word := by omega
    rw [List.range'_succ, List.map_cons]
    cases hq : pollOf s 0 with
    | done => simp [Body.fillLoop, bst, h0, hq, fillSpec, advance]
    | panic => simp [Body.fillLoop, bst, h0, hq, fillSpec, advance]
    | yield x =>
      have hs' : ∀ j, c.src ((advance s).k + j) = pollOf (advance s) j := by
        intro j
        rw [pollOf_advance]
        have : (advance s).k + j = s.k + (j + 1) := by simp [advance]; omega
        rw [this]; exact hsrc (j + 1)
      have := ih (advance s) (outL ++ [x]) hs' (by simp; omega)
      simp only [List.length_append, List.length_cons, List.length_nil, Nat.zero_add, bst] at this
      simp only [Body.fillLoop, bst, h0, hq, fillSpec]
      simp [fillBody, loopBodyOf, Gen.Body.tryFromIter, exec, eval, St.obj, St.putObj, O.get, O.put, natOf, hw1,
        set_fresh, repl_set0, erase_fresh, advance] at this ⊢
      rw [this]
      simp
      omega

theorem fillSpec_len : ∀ (rem : Nat) (s : Script) (out : List Nat),
    ((fillSpec rem s out).2.1 = 0 → (fillSpec rem s out).2.2.1.length = out.length + rem) ∧
    ((fillSpec rem s out).2.1 ≠ 0 → (fillSpec rem s out).2.2.1.length < out.length + rem) ∧
    (fillSpec rem s out).2.1 ≤ 2
  | 0, s, out => by simp [fillSpec]
  | rem + 1, s, out => by
    cases hq : pollOf s 0 with
    | done => simp [fillSpec, hq]
    | panic => simp [fillSpec, hq]
    | yield x =>
      obtain ⟨a, b, c⟩ := fillSpec_len rem (advance s) (out ++ [x])
      simp only [List.length_append, List.length_cons, List.length_nil] at a b
      simp only [fillSpec, hq]
      refine ⟨fun h => ?_, fun h => ?_, c⟩
      · have := a h; omega
      · have := b h; omega

theorem fillSpec_src (c : Ctx) : ∀ (rem : Nat) (s : Script) (out : List Nat),
    (∀ j, c.src (s.k + j) = pollOf s j) →
    ∀ j, c.src ((fillSpec rem s out).2.2.2.k + j) = pollOf (fillSpec rem s out).2.2.2 j
  | 0, s, out, h => by simpa [fillSpec] using h
  | rem + 1, s, out, h => by
    have hs' : ∀ j, c.src ((advance s).k + j) = pollOf (advance s) j := by
      intro j
      rw [pollOf_advance]
      have : (advance s).k + j = s.k + (j + 1) := by simp [advance]; omega
      rw [this]; exact h (j + 1)
    cases hq : pollOf s 0 with
    | done => simpa [fillSpec, hq] using hs'
    | panic => simpa [fillSpec, hq] using hs'
    | yield x => simpa [fillSpec, hq] using fillSpec_src c rem (advance s) (out ++ [x]) hs'

/-- the builder's destructor over a partly filled array releases exactly what was written -/
theorem dropEvs_written (outL : List Nat) (rem : Nat) :
    dropEvs ⟨outL ++ List.replicate rem 0, 0, 0, outL.length, List.range' outL.length rem⟩ 0 outL.length
      = outL.map .drop := by
  unfold dropEvs idsOf
  by_cases hr : rem = 0
  · subst hr; simp
  · have hne : (List.range' outL.length rem).isEmpty = false := by
      cases rem with
      | zero => exact absurd rfl hr
      | succ r => simp [List.range'_succ]
    simp only [hne, Bool.false_eq_true, if_false, Nat.sub_zero]
    apply List.ext_getElem
    · simp
    · intro i h1 h2
      simp only [List.length_map, List.length_range'] at h1
      have hnot : ¬ (outL.length ≤ i ∧ i < outL.length + rem) := by omega
      simp [hnot, List.getElem_append_left, h1]
      rw [List.getElem?_append_left h1, List.getElem?_eq_getElem h1]
      rfl

theorem libFrags_eq : GA.Ops.libFrags = canonFrags := by
  unfold GA.Ops.libFrags canonFrags
  congr 1 <;> (try funext a b) <;> simp [ga_bridge]

def resOf : R → Option Res
  | .ret (.ok (.arr l)) => some (.ok l)
  | .ret (.arr l) => some (.ok l)
  | .ret .err => some .err
  | .panicked => some .panicked
  | _ => none

theorem exec_ite (c : Ctx) (cnd : X) (t e : S) (env : List V) (st : St) :
    exec c (.ite cnd t e) env st = match boolOf (eval c env st cnd) with
      | some true => exec c t env st
      | some false => exec c e env st
      | none => ([], .ub, st) := by
  first | rfl | (simp only [exec]; rfl)
theorem exec_newBuilder (c : Ctx) (k : S) (env : List V) (st : St) :
    exec c (.newBuilder k) env st =
      exec c k env { st with out := ⟨List.replicate c.n 0, 0, 0, 0, List.range c.n⟩, hasOut := true, outForgot := false } := by
  first | rfl | (simp only [exec]; rfl)
theorem exec_pollS (c : Ctx) (hb : c.bad = none) (k : S) (env : List V) (st : St) :
    exec c (.pollS k) env st = match c.src st.polls with
      | .yield x =>
        (.poll st.polls :: .take st.polls x :: .drop x :: (exec c k (env ++ [.bool true]) { st with polls := st.polls + 1 }).1,
          (exec c k (env ++ [.bool true]) { st with polls := st.polls + 1 }).2)
      | .done =>
        (.poll st.polls :: (exec c k (env ++ [.bool false]) { st with polls := st.polls + 1 }).1,
          (exec c k (env ++ [.bool false]) { st with polls := st.polls + 1 }).2)
      | .panic => ([.poll st.polls, .panic st.polls], .panicked, { st with polls := st.polls + 1 }) := by
  simp only [exec, hb, GA.Body.panics, Bool.false_eq_true, if_false]
  rfl
theorem exec_forgetO_out (c : Ctx) (k : S) (env : List V) (st : St) :
    exec c (.forgetO .out k) env st = exec c k env { st with outForgot := true } := by
  first | rfl | (simp only [exec]; rfl)
theorem exec_lenFail (c : Ctx) (env : List V) (st : St) : exec c .lenFail env st = ([.lenFail], .panicked, st) := by
  first | rfl | (simp only [exec]; rfl)

theorem step_of_pollOf (s : Script) :
    scriptSrc.step s = (match pollOf s 0 with
      | .yield x => Step.yield [.poll s.k, .take s.k x] x (advance s)
      | .done => Step.done [.poll s.k] (advance s)
      | .panic => Step.panic [.poll s.k, .panic s.k] (advance s)) := by
  by_cases hp : s.panicAt = some s.k
  · simp [scriptSrc, pollOf, hp, advance]
  · cases ha : s.answers with
    | nil => simp [scriptSrc, pollOf, hp, advance, ha]
    | cons a t => cases a <;> simp [scriptSrc, pollOf, hp, advance, ha]

open Lean.Parser.Tactic in
macro "collect_simp" "[" ts:simpLemma,* "]" : tactic =>
  `(tactic| simp [runFn, runDropOn, exec_fillS, exec_ite, exec_newBuilder, exec_pollS, exec_forgetO_out, exec_lenFail,
      exec_done, exec_drop, eval, St.obj, St.putObj, O.get, O.put, natOf, boolOf, resolve, GA.Body.panics, resOf,
      positions, List.range_eq_range', $ts,*])

/-- the part of `try_from_iter` after the two `size_hint` pre-checks -/
def coreOf : S → S
  | .ite _ _ (.ite _ _ k) => k
  | _ => .opaque 0

theorem collect_core (c : Ctx) (hn : c.n < word) (sc : Script)
    (hsrc : ∀ j, c.src (sc.k + j) = pollOf sc j) (hb : c.bad = none) (selfO : O)
    (hrej : hintReject canonFrags c.hint c.n = false) :
    let r := runFn c Gen.Body.intrusiveDrop.body ⟨.ref, coreOf Gen.Body.tryFromIter.body⟩ []
      ⟨selfO, ⟨[], 0, 0, 0, []⟩, false, 0, false, sc.k, false, {}⟩
    (r.1, resOf r.2.1) = ((Own.tryFromIter canonFrags scriptSrc c.n c.hint sc).1,
      some (Own.tryFromIter canonFrags scriptSrc c.n c.hint sc).2) := by
  have hl := fill_loop_body c selfO 0 false c.n sc [] hsrc (by simpa using hn)
  simp only [loopBodyOf, Gen.Body.tryFromIter, List.length_nil, Nat.zero_add, bst, List.nil_append] at hl
  have hlen := fillSpec_len c.n sc []
  have hsrc' := fillSpec_src c c.n sc [] hsrc
  unfold Own.tryFromIter
  rw [hrej]
  simp only [Bool.false_eq_true, if_false, own_fillLoop_eq, canonFrags]
  generalize hq : fillSpec c.n sc [] = q at hl hlen hsrc'
  obtain ⟨tr, tag, out, s'⟩ := q
  simp only [List.length_nil, Nat.zero_add] at hlen
  obtain ⟨hl0, hl1, hl2⟩ := hlen
  simp only at hl hsrc' hl0 hl1 hl2
  have hd := dropEvs_written out (c.n - out.length)
  have hs0 : c.src s'.k = pollOf s' 0 := by simpa using hsrc' 0
  rcases tag with _ | _ | tag
  · -- every slot written
    have hlen : out.length = c.n := hl0 rfl
    have e0 : c.n - out.length = 0 := by omega
    simp only [hlen, decide_true, Bool.not_true, Bool.false_eq_true, if_false, step_of_pollOf]
    cases hp : pollOf s' 0 with
    | yield x =>
      collect_simp [coreOf, Gen.Body.tryFromIter, Gen.Body.intrusiveDrop, hl, hlen, hs0, hp, hb, hd, scriptSrc]
      simp [dropEvs, idsOf, ← hlen]
    | done =>
      collect_simp [coreOf, Gen.Body.tryFromIter, Gen.Body.intrusiveDrop, hl, hlen, hs0, hp, hb, hd, scriptSrc, e0]
    | panic =>
      collect_simp [coreOf, Gen.Body.tryFromIter, Gen.Body.intrusiveDrop, hl, hlen, hs0, hp, hb, hd, scriptSrc]
      simp [dropEvs, idsOf, ← hlen]
  · -- the source ended first
    have hlt : out.length < c.n := hl1 (by omega)
    have hne : ¬ out.length = c.n := by omega
    have hle : out.length ≤ c.n - out.length + out.length := by omega
    collect_simp [coreOf, Gen.Body.tryFromIter, Gen.Body.intrusiveDrop, hl, hne, hb, hd, scriptSrc, hle]
  · -- the source panicked
    have hlt : out.length < c.n := hl1 (by omega)
    have hle : out.length ≤ c.n - out.length + out.length := by omega
    have ht : tag + 1 + 1 = 2 := by omega
    collect_simp [coreOf, Gen.Body.tryFromIter, Gen.Body.intrusiveDrop, hl, hb, hd, scriptSrc, hle, ht]

/-- **`try_from_iter`, whole body.**  For every length, size hint and scripted caller iterator
    (any answers, fused or not, a panic at any poll), interpreting the regenerated body — with
    `IntrusiveArrayBuilder::new`, `extend`, `is_full` and `finish` inlined from their own current
    source — produces exactly the events and the result of the ownership model's `tryFromIter`. -/
theorem tryFromIter_body (n : Nat) (hn : n < word) (hint : Nat × Option Nat) (sc : Script) (c : Ctx)
    (hcn : c.n = n) (hch : c.hint = hint) (hsrc : ∀ j, c.src (sc.k + j) = pollOf sc j) (hb : c.bad = none) (selfO : O) :
    let r := runFn c Gen.Body.intrusiveDrop.body Gen.Body.tryFromIter []
      ⟨selfO, ⟨[], 0, 0, 0, []⟩, false, 0, false, sc.k, false, {}⟩
    (r.1, resOf r.2.1) = ((Own.tryFromIter canonFrags scriptSrc n hint sc).1,
      some (Own.tryFromIter canonFrags scriptSrc n hint sc).2) := by
  subst hcn
  subst hch
  by_cases h1 : c.n < c.hint.1
  · simp [runFn, Gen.Body.tryFromIter, exec_ite, exec_done, eval, natOf, boolOf, h1, Own.tryFromIter, hintReject,
      canonFrags, scriptSrc, resOf]
  · cases hh : c.hint.2 with
    | some h =>
      by_cases h2 : h < c.n
      · simp [runFn, Gen.Body.tryFromIter, exec_ite, exec_done, eval, natOf, boolOf, h1, hh, h2, Own.tryFromIter,
          hintReject, canonFrags, scriptSrc, resOf]
      · have hrej : hintReject canonFrags c.hint c.n = false := by
          simp [hintReject, canonFrags, hh, h1, h2]
        have hc := collect_core c hn sc hsrc hb selfO hrej
        have e : runFn c Gen.Body.intrusiveDrop.body Gen.Body.tryFromIter [] ⟨selfO, ⟨[], 0, 0, 0, []⟩, false, 0, false, sc.k, false, {}⟩
            = runFn c Gen.Body.intrusiveDrop.body ⟨.ref, coreOf Gen.Body.tryFromIter.body⟩ [] ⟨selfO, ⟨[], 0, 0, 0, []⟩, false, 0, false, sc.k, false, {}⟩ := by
          simp [runFn, Gen.Body.tryFromIter, coreOf, exec_ite, eval, natOf, boolOf, h1, hh, h2]
        rw [e]; exact hc
    | none =>
      have hrej : hintReject canonFrags c.hint c.n = false := by
        simp [hintReject, canonFrags, hh, h1]
      have hc := collect_core c hn sc hsrc hb selfO hrej
      have e : runFn c Gen.Body.intrusiveDrop.body Gen.Body.tryFromIter [] ⟨selfO, ⟨[], 0, 0, 0, []⟩, false, 0, false, sc.k, false, {}⟩
          = runFn c Gen.Body.intrusiveDrop.body ⟨.ref, coreOf Gen.Body.tryFromIter.body⟩ [] ⟨selfO, ⟨[], 0, 0, 0, []⟩, false, 0, false, sc.k, false, {}⟩ := by
        simp [runFn, Gen.Body.tryFromIter, coreOf, exec_ite, eval, natOf, boolOf, h1, hh]
      rw [e]; exact hc

/-! ### `from_iter` = `try_from_iter` with `Err` turned into the length panic -/

/-- what inlining `match try_from_iter(iter) { Ok(res) => res, Err(_) => from_iter_length_fail(N) }`
    does to the callee's body: every `return Err(..)` becomes "drop the callee's locals, then panic",
    every `Ok(x)` result becomes `x` -/
def failOnErr : S → S
  | .done x => (match x with
    | .err => .endOut .lenFail
    | .ok y => .done y
    | x => .done x)
  | .letv e k => .letv e (failOnErr k)
  | .set o f e k => .set o f e (failOnErr k)
  | .drop sl k => .drop sl (failOnErr k)
  | .ite c t e => .ite c (failOnErr t) (failOnErr e)
  | .forget k => .forget (failOnErr k)
  | .foldS r sl b k => .foldS r sl b (failOnErr k)
  | .zipS d s b k => .zipS d s b (failOnErr k)
  | .callF a k => .callF a (failOnErr k)
  | .cloneOf s k => .cloneOf s (failOnErr k)
  | .write d v k => .write d v (failOnErr k)
  | .newOut m i b k => .newOut m i b (failOnErr k)
  | .newBuilder k => .newBuilder (failOnErr k)
  | .fillS df b k => .fillS df b (failOnErr k)
  | .pollS k => .pollS (failOnErr k)
  | .forgetO o k => .forgetO o (failOnErr k)
  | .lenFail => .lenFail
  | .forSlots b k => .forSlots b (failOnErr k)
  | .callG a k => .callG a (failOnErr k)
  | .callM a k => .callM a (failOnErr k)
  | .fillMapS l o cl b k => .fillMapS l o cl b (failOnErr k)
  | .pollMapS l o cl k => .pollMapS l o cl (failOnErr k)
  | .callM2 a b k => .callM2 a b (failOnErr k)
  | .seqFill b k => .seqFill b (failOnErr k)
  | .probeS k => .probeS (failOnErr k)
  | .fillZipMapS l a b cl bd k => .fillZipMapS l a b cl bd (failOnErr k)
  | .pollZipMapS l a b cl k => .pollZipMapS l a b cl (failOnErr k)
  | .allocS k => .allocS (failOnErr k)
  | .abortAlloc => .abortAlloc
  | .guardNew p k => .guardNew p (failOnErr k)
  | .guardForget k => .guardForget (failOnErr k)
  | .builderAt p k => .builderAt p (failOnErr k)
  | .deallocS p k => .deallocS p (failOnErr k)
  | .endOut k => .endOut (failOnErr k)
  | .opaque n => .opaque n

/-- every result of the body is syntactically `Err(..)` or `Ok(..)` -/
def resultLeaves : S → Bool
  | .done x => (match x with | .err => true | .ok _ => true | _ => false)
  | .letv _ k => resultLeaves k
  | .set _ _ _ k => resultLeaves k
  | .drop _ k => resultLeaves k
  | .ite _ t e => resultLeaves t && resultLeaves e
  | .forget k => resultLeaves k
  | .foldS _ _ _ k => resultLeaves k
  | .zipS _ _ _ k => resultLeaves k
  | .callF _ k => resultLeaves k
  | .cloneOf _ k => resultLeaves k
  | .write _ _ k => resultLeaves k
  | .newOut _ _ _ k => resultLeaves k
  | .newBuilder k => resultLeaves k
  | .fillS _ _ k => resultLeaves k
  | .pollS k => resultLeaves k
  | .forgetO _ k => resultLeaves k
  | .lenFail => true
  | .forSlots _ k => resultLeaves k
  | .callG _ k => resultLeaves k
  | .callM _ k => resultLeaves k
  | .fillMapS _ _ _ _ k => resultLeaves k
  | .pollMapS _ _ _ k => resultLeaves k
  | .callM2 _ _ k => resultLeaves k
  | .seqFill _ _ => false
  | .probeS _ => false
  | .fillZipMapS _ _ _ _ _ k => resultLeaves k
  | .pollZipMapS _ _ _ _ k => resultLeaves k
  | .allocS k => resultLeaves k
  | .abortAlloc => true
  | .guardNew _ k => resultLeaves k
  | .guardForget k => resultLeaves k
  | .builderAt _ k => resultLeaves k
  | .deallocS _ k => resultLeaves k
  | .endOut k => resultLeaves k
  | .opaque _ => true

/-- the caller's view of the callee's outcome -/
def postR (r : List Ev × R × St) : List Ev × R × St :=
  match r.2.1 with
  | .ret .err =>
    if r.2.2.hasOut && !r.2.2.outForgot then
      (r.1 ++ dropEvs r.2.2.out 0 r.2.2.out.position ++ [.lenFail], .panicked, { r.2.2 with outForgot := true })
    else (r.1 ++ [.lenFail], .panicked, r.2.2)
  | .ret (.ok v) => (r.1, .ret v, r.2.2)
  | _ => r

theorem postR_prefix (a : List Ev) (r : List Ev × R × St) :
    postR (a ++ r.1, r.2) = (a ++ (postR r).1, (postR r).2) := by
  obtain ⟨tr, res, st⟩ := r
  unfold postR
  simp only
  split
  · split <;> simp
  · simp
  · simp

theorem postR_cons (a : Ev) (r : List Ev × R × St) :
    postR (a :: r.1, r.2) = (a :: (postR r).1, (postR r).2) := postR_prefix [a] r

theorem postR_ub (tr : List Ev) (st : St) : postR (tr, .ub, st) = (tr, .ub, st) := rfl
theorem postR_panicked (tr : List Ev) (st : St) : postR (tr, .panicked, st) = (tr, .panicked, st) := rfl

theorem exec_failOnErr (c : Ctx) (hb : c.bad = none) : ∀ (s : S) (env : List V) (st : St), resultLeaves s = true →
    exec c (failOnErr s) env st = postR (exec c s env st) := by
  intro s
  induction s with
  | done x =>
    intro env st h
    cases x <;> simp [resultLeaves] at h
    · simp [failOnErr, exec, eval, postR, hb, GA.Body.panics]
    · rename_i y
      simp only [failOnErr, exec, eval]
      cases eval c env st y <;> simp [postR]
  | letv e k ih =>
    intro env st h
    simp only [failOnErr, exec]
    cases eval c env st e with
    | none => rfl
    | some v => exact ih _ _ h
  | set o f e k ih =>
    intro env st h
    simp only [failOnErr, exec]
    cases natOf (eval c env st e) with
    | none => rfl
    | some v => exact ih _ _ h
  | drop sl k ih =>
    intro env st h
    simp only [failOnErr, exec]
    split
    · split
      · rfl
      · rw [ih _ _ h]; exact (postR_prefix _ _).symm
    · rfl
  | ite cnd t e iht ihe =>
    intro env st h
    simp only [resultLeaves, Bool.and_eq_true] at h
    simp only [failOnErr, exec]
    split
    · exact iht _ _ h.1
    · exact ihe _ _ h.2
    · rfl
  | forget k ih => intro env st h; simp only [failOnErr, exec]; exact ih _ _ h
  | foldS r sl b k _ ih =>
    intro env st h
    simp only [failOnErr, exec]
    split
    · generalize loopOver _ _ _ = L
      obtain ⟨tr, res, st'⟩ := L
      cases res with
      | ret v => simp only []; rw [ih _ _ h]; exact (postR_prefix _ _).symm
      | panicked => rfl
      | ub => rfl
    · rfl
  | zipS d s b k _ ih =>
    intro env st h
    simp only [failOnErr, exec]
    split
    · generalize loopOver _ _ _ = L
      obtain ⟨tr, res, st'⟩ := L
      cases res with
      | ret v => simp only []; rw [ih _ _ h]; exact (postR_prefix _ _).symm
      | panicked => rfl
      | ub => rfl
    · rfl
  | callF a k ih =>
    intro env st h
    simp only [failOnErr, exec]
    split
    · split
      · rfl
      · rw [ih _ _ h]; exact (postR_cons _ _).symm
    · rfl
  | cloneOf src k ih =>
    intro env st h
    simp only [failOnErr, exec]
    split
    · split
      · rw [ih _ _ h]
        exact (postR_prefix [_, _] _).symm
      · rfl
    · rfl
  | write d v k ih =>
    intro env st h
    simp only [failOnErr, exec]
    split
    · exact ih _ _ h
    · rfl
  | newOut m i b k ih =>
    intro env st h
    simp only [failOnErr, exec]
    split
    · exact ih _ _ h
    · rfl
  | newBuilder k ih => intro env st h; simp only [failOnErr, exec]; exact ih _ _ h
  | fillS df b k _ ih =>
    intro env st h
    simp only [failOnErr, exec]
    generalize Body.fillLoop _ _ _ _ _ = L
    obtain ⟨tr, res, st'⟩ := L
    cases res with
    | ret v => simp only []; rw [ih _ _ h]; exact (postR_prefix _ _).symm
    | panicked => rfl
    | ub => rfl
  | pollS k ih =>
    intro env st h
    simp only [failOnErr, exec, hb, GA.Body.panics, Bool.false_eq_true, if_false]
    split
    · rw [ih _ _ h]
      exact (postR_prefix [_, _, _] _).symm
    · rw [ih _ _ h]; exact (postR_cons _ _).symm
    · rfl
  | forgetO o k ih =>
    intro env st h
    simp only [failOnErr, exec]
    cases o <;> exact ih _ _ h
  | lenFail => intro env st _; rfl
  | forSlots b k _ ih =>
    intro env st h
    simp only [failOnErr, exec]
    generalize loopOver _ _ _ = L
    obtain ⟨tr, res, st'⟩ := L
    cases res with
    | ret v => simp only []; rw [ih _ _ h]; exact (postR_prefix _ _).symm
    | panicked => rfl
    | ub => rfl
  | callG a k ih =>
    intro env st h
    simp only [failOnErr, exec]
    split
    · split
      · rw [ih _ _ h]; exact (postR_cons _ _).symm
      · rfl
    · rfl
  | callM a k ih =>
    intro env st h
    simp only [failOnErr, exec]
    split
    · split
      · rw [ih _ _ h]; exact (postR_prefix [_, _] _).symm
      · rfl
    · rfl
  | fillMapS l o cl b k _ _ ih =>
    intro env st h
    simp only [failOnErr, exec]
    generalize mapLoop _ _ _ _ _ = L
    obtain ⟨tr, res, st'⟩ := L
    cases res with
    | ret v => simp only []; rw [ih _ _ h]; exact (postR_prefix _ _).symm
    | panicked => rfl
    | ub => rfl
  | pollMapS l o cl k _ ih =>
    intro env st h
    simp only [failOnErr, exec]
    split
    · generalize exec c cl _ _ = L
      obtain ⟨tr, res, st'⟩ := L
      cases res with
      | ret v =>
        cases v with
        | elem y =>
          simp only []
          rw [ih _ _ h]
          have := postR_prefix (tr ++ [Ev.drop y]) (exec c k (env ++ [V.bool true]) st')
          simp only [List.append_assoc, List.singleton_append] at this
          exact this.symm
        | _ => rfl
      | panicked => rfl
      | ub => rfl
    · exact ih _ _ h
  | seqFill b k _ _ => intro env st h; simp [resultLeaves] at h
  | probeS k _ => intro env st h; simp [resultLeaves] at h
  | callM2 a b k ih =>
    intro env st h
    simp only [failOnErr, exec]
    split
    · split
      · rw [ih _ _ h]; exact (postR_prefix [_, _, _] _).symm
      · rfl
    · rfl
  | fillZipMapS l a b cl bd k _ _ ih =>
    intro env st h
    simp only [failOnErr, exec]
    generalize zipMapLoop _ _ _ _ _ _ = L
    obtain ⟨tr, res, st'⟩ := L
    cases res with
    | ret v => simp only []; rw [ih _ _ h]; exact (postR_prefix _ _).symm
    | panicked => rfl
    | ub => rfl
  | pollZipMapS l a b cl k _ ih =>
    intro env st h
    simp only [failOnErr, exec]
    split
    · generalize exec c cl _ _ = L
      obtain ⟨tr, res, st'⟩ := L
      cases res with
      | ret v =>
        cases v with
        | elem y =>
          simp only []
          rw [ih _ _ h]
          have := postR_prefix (tr ++ [Ev.drop y]) (exec c k (env ++ [V.bool true]) st')
          simp only [List.append_assoc, List.singleton_append] at this
          exact this.symm
        | _ => rfl
      | panicked => rfl
      | ub => rfl
    · exact ih _ _ h
  | allocS k ih =>
    intro env st h
    simp only [failOnErr, exec]
    split <;> exact ih _ _ h
  | abortAlloc => intro env st _; rfl
  | guardNew p k ih =>
    intro env st h
    simp only [failOnErr, exec]
    split
    · exact ih _ _ h
    · rfl
  | guardForget k ih => intro env st h; simp only [failOnErr, exec]; exact ih _ _ h
  | builderAt p k ih =>
    intro env st h
    simp only [failOnErr, exec]
    split
    · exact ih _ _ h
    · rfl
    · rfl
  | deallocS p k ih =>
    intro env st h
    simp only [failOnErr, exec]
    split
    · exact ih _ _ h
    · rfl
  | endOut k ih =>
    intro env st h
    simp only [failOnErr, exec, hb, GA.Body.panics, Bool.false_eq_true, if_false]
    split
    · rw [ih _ _ h]; exact (postR_prefix _ _).symm
    · exact ih _ _ h
  | «opaque» n => intro env st _; rfl

theorem exec_endOut (c : Ctx) (hb : c.bad = none) (k : S) (env : List V) (st : St) :
    exec c (.endOut k) env st =
      if st.hasOut && !st.outForgot then
        (dropEvs st.out 0 st.out.position ++ (exec c k env { st with outForgot := true }).1,
          (exec c k env { st with outForgot := true }).2)
      else exec c k env st := by
  simp only [exec, hb, GA.Body.panics, Bool.false_eq_true, if_false]

/-- the inlined `try_from_iter` inside `from_iter` is, statement for statement, the body of
    `try_from_iter` with every `Err` result turned into "drop the callee's locals, then panic" -/
theorem fromIter_is_failOnErr : Gen.Body.fromIter.body = failOnErr Gen.Body.tryFromIter.body := by rfl
theorem tryFromIter_leaves : resultLeaves Gen.Body.tryFromIter.body = true := by rfl

theorem collect_core_from (c : Ctx) (hn : c.n < word) (sc : Script)
    (hsrc : ∀ j, c.src (sc.k + j) = pollOf sc j) (hb : c.bad = none) (selfO : O)
    (hrej : hintReject canonFrags c.hint c.n = false) :
    let r := runFn c Gen.Body.intrusiveDrop.body ⟨.ref, coreOf Gen.Body.fromIter.body⟩ []
      ⟨selfO, ⟨[], 0, 0, 0, []⟩, false, 0, false, sc.k, false, {}⟩
    (r.1, resOf r.2.1) = ((Own.fromIter canonFrags scriptSrc c.n c.hint sc).1,
      some (Own.fromIter canonFrags scriptSrc c.n c.hint sc).2) := by
  have hl := fill_loop_body c selfO 0 false c.n sc [] hsrc (by simpa using hn)
  simp only [loopBodyOf, Gen.Body.tryFromIter, List.length_nil, Nat.zero_add, bst, List.nil_append] at hl
  have hlen := fillSpec_len c.n sc []
  have hsrc' := fillSpec_src c c.n sc [] hsrc
  unfold Own.fromIter Own.tryFromIter
  rw [hrej]
  simp only [Bool.false_eq_true, if_false, own_fillLoop_eq, canonFrags]
  generalize hq : fillSpec c.n sc [] = q at hl hlen hsrc'
  obtain ⟨tr, tag, out, s'⟩ := q
  simp only [List.length_nil, Nat.zero_add] at hlen
  obtain ⟨hl0, hl1, hl2⟩ := hlen
  simp only at hl hsrc' hl0 hl1 hl2
  have hd := dropEvs_written out (c.n - out.length)
  have hs0 : c.src s'.k = pollOf s' 0 := by simpa using hsrc' 0
  rcases tag with _ | _ | tag
  · -- every slot written
    have hlen : out.length = c.n := hl0 rfl
    have e0 : c.n - out.length = 0 := by omega
    simp only [hlen, decide_true, Bool.not_true, Bool.false_eq_true, if_false, step_of_pollOf]
    cases hp : pollOf s' 0 with
    | yield x =>
      collect_simp [coreOf, Gen.Body.fromIter, exec_endOut, dropEvs_written, Gen.Body.intrusiveDrop, hl, hlen, hs0, hp, hb, hd, scriptSrc]
      simp [dropEvs, idsOf, ← hlen]
    | done =>
      collect_simp [coreOf, Gen.Body.fromIter, exec_endOut, dropEvs_written, Gen.Body.intrusiveDrop, hl, hlen, hs0, hp, hb, hd, scriptSrc, e0]
    | panic =>
      collect_simp [coreOf, Gen.Body.fromIter, exec_endOut, dropEvs_written, Gen.Body.intrusiveDrop, hl, hlen, hs0, hp, hb, hd, scriptSrc]
      simp [dropEvs, idsOf, ← hlen]
  · -- the source ended first
    have hlt : out.length < c.n := hl1 (by omega)
    have hne : ¬ out.length = c.n := by omega
    have hle : out.length ≤ c.n - out.length + out.length := by omega
    collect_simp [coreOf, Gen.Body.fromIter, exec_endOut, dropEvs_written, Gen.Body.intrusiveDrop, hl, hne, hb, hd, scriptSrc, hle]
  · -- the source panicked
    have hlt : out.length < c.n := hl1 (by omega)
    have hle : out.length ≤ c.n - out.length + out.length := by omega
    have ht : tag + 1 + 1 = 2 := by omega
    collect_simp [coreOf, Gen.Body.fromIter, exec_endOut, dropEvs_written, Gen.Body.intrusiveDrop, hl, hb, hd, scriptSrc, hle, ht]

/-- **`from_iter`, whole body** (with `try_from_iter` inlined from its current source).  For every length, size hint and scripted caller iterator
    (any answers, fused or not, a panic at any poll), interpreting the regenerated body — with
    `IntrusiveArrayBuilder::new`, `extend`, `is_full` and `finish` inlined from their own current
    source — produces exactly the events and the result of the ownership model's `tryFromIter`. -/
theorem fromIter_body (n : Nat) (hn : n < word) (hint : Nat × Option Nat) (sc : Script) (c : Ctx)
    (hcn : c.n = n) (hch : c.hint = hint) (hsrc : ∀ j, c.src (sc.k + j) = pollOf sc j) (hb : c.bad = none) (selfO : O) :
    let r := runFn c Gen.Body.intrusiveDrop.body Gen.Body.fromIter []
      ⟨selfO, ⟨[], 0, 0, 0, []⟩, false, 0, false, sc.k, false, {}⟩
    (r.1, resOf r.2.1) = ((Own.fromIter canonFrags scriptSrc n hint sc).1,
      some (Own.fromIter canonFrags scriptSrc n hint sc).2) := by
  subst hcn
  subst hch
  by_cases h1 : c.n < c.hint.1
  · simp [runFn, Gen.Body.fromIter, exec_ite, exec_done, exec_endOut, hb, exec_lenFail, eval, natOf, boolOf, h1, Own.fromIter, Own.tryFromIter, hintReject,
      canonFrags, scriptSrc, resOf]
  · cases hh : c.hint.2 with
    | some h =>
      by_cases h2 : h < c.n
      · simp [runFn, Gen.Body.fromIter, exec_ite, exec_done, exec_endOut, hb, exec_lenFail, eval, natOf, boolOf, h1, hh, h2, Own.fromIter, Own.tryFromIter,
          hintReject, canonFrags, scriptSrc, resOf]
      · have hrej : hintReject canonFrags c.hint c.n = false := by
          simp [hintReject, canonFrags, hh, h1, h2]
        have hc := collect_core_from c hn sc hsrc hb selfO hrej
        have e : runFn c Gen.Body.intrusiveDrop.body Gen.Body.fromIter [] ⟨selfO, ⟨[], 0, 0, 0, []⟩, false, 0, false, sc.k, false, {}⟩
            = runFn c Gen.Body.intrusiveDrop.body ⟨.ref, coreOf Gen.Body.fromIter.body⟩ [] ⟨selfO, ⟨[], 0, 0, 0, []⟩, false, 0, false, sc.k, false, {}⟩ := by
          simp [runFn, Gen.Body.fromIter, coreOf, exec_ite, eval, natOf, boolOf, h1, hh, h2]
        rw [e]; exact hc
    | none =>
      have hrej : hintReject canonFrags c.hint c.n = false := by
        simp [hintReject, canonFrags, hh, h1]
      have hc := collect_core_from c hn sc hsrc hb selfO hrej
      have e : runFn c Gen.Body.intrusiveDrop.body Gen.Body.fromIter [] ⟨selfO, ⟨[], 0, 0, 0, []⟩, false, 0, false, sc.k, false, {}⟩
          = runFn c Gen.Body.intrusiveDrop.body ⟨.ref, coreOf Gen.Body.fromIter.body⟩ [] ⟨selfO, ⟨[], 0, 0, 0, []⟩, false, 0, false, sc.k, false, {}⟩ := by
        simp [runFn, Gen.Body.fromIter, coreOf, exec_ite, eval, natOf, boolOf, h1, hh]
      rw [e]; exact hc

end GA.Bridge.BodyCollect

namespace GA.Bridge.BodyCollect
open GA.Body GA.Own GA.Bridge.Body

/-! ### `GenericSequence::generate` (stack) -/

/-- the generator calls `f(i), f(i+1), …` for `rem` slots: events, whether all returned, values,
    number of calls made -/
def genSpec (f : Nat → Option Nat) : Nat → Nat → List Nat → List Ev × Bool × List Nat × Nat
  | 0, _, out => ([], true, out, 0)
  | rem + 1, i, out =>
    match f i with
    | some y =>
      let r := genSpec f rem (i + 1) (out ++ [y])
      (.take i y :: r.1, r.2.1, r.2.2.1, r.2.2.2 + 1)
    | none => ([.panic i], false, out, 1)

theorem genSrc_step (f : Nat → Option Nat) (i : Nat) :
    (genSrc f).step i = (match f i with
      | some y => Step.yield [.take i y] y (i + 1)
      | none => Step.panic [.panic i] (i + 1)) := rfl

theorem own_genLoop_eq (f : Nat → Option Nat) : ∀ (rem i : Nat) (out : List Nat),
    Own.fillLoop true true (genSrc f) rem i out =
      (if (genSpec f rem i out).2.1 then ((genSpec f rem i out).1, FillRes.full (genSpec f rem i out).2.2.1 (i + rem))
       else ((genSpec f rem i out).1 ++ (genSpec f rem i out).2.2.1.map .drop, FillRes.panicked))
  | 0, i, out => by simp [Own.fillLoop, genSpec]
  | rem + 1, i, out => by
    have ih := own_genLoop_eq f rem (i + 1)
    cases hf : f i with
    | none => simp [Own.fillLoop, genSrc_step, genSpec, hf, builderDrop, genSrc]
    | some y =>
      have e : i + 1 + rem = i + (rem + 1) := by omega
      simp only [Own.fillLoop, genSrc_step, genSpec, hf, ih (out ++ [y]), e]
      split <;> simp

theorem genSpec_len (f : Nat → Option Nat) : ∀ (rem i : Nat) (out : List Nat),
    out.length ≤ (genSpec f rem i out).2.2.1.length ∧ (genSpec f rem i out).2.2.1.length ≤ out.length + rem ∧
    ((genSpec f rem i out).2.1 = true → (genSpec f rem i out).2.2.1.length = out.length + rem)
  | 0, i, out => by simp [genSpec]
  | rem + 1, i, out => by
    cases hf : f i with
    | none => simp [genSpec, hf]
    | some y =>
      obtain ⟨a, b, c⟩ := genSpec_len f rem (i + 1) (out ++ [y])
      simp only [List.length_append, List.length_cons, List.length_nil] at a b c
      simp only [genSpec, hf]
      refine ⟨by omega, by omega, fun h => ?_⟩
      have := c h; omega

theorem exec_forSlots (c : Ctx) (body k : S) (env : List V) (st : St) :
    exec c (.forSlots body k) env st =
      match loopOver (fun p s =>
          match p with
          | .pair i d => exec c body (env ++ [i, d]) s
          | _ => ([], .ub, s)) ((List.range st.out.slots.length).map fun p => V.pair (.nat p) (.slot .out p)) st with
      | (tr, .ret _, st') =>
        let r := exec c k env st'
        (tr ++ r.1, r.2)
      | r => r := by
  first | rfl | (simp only [exec]; rfl)

theorem gen_loop_body (c : Ctx) (selfO : O) (fg : Bool) (pl : Nat) :
    ∀ (rem : Nat) (outL : List Nat) (calls : Nat), outL.length + rem < word →
      loopOver (fun p s =>
          match p with
          | .pair i d => exec c (loopBodyOf Gen.Body.generate.body) ([] ++ [i, d]) s
          | _ => ([], .ub, s))
          ((List.range' outL.length rem).map fun p => V.pair (.nat p) (.slot .out p)) (bst selfO outL rem calls fg pl)
        = ((genSpec c.cl rem outL.length outL).1,
           (if (genSpec c.cl rem outL.length outL).2.1 then R.ret .unit else R.panicked),
           bst selfO (genSpec c.cl rem outL.length outL).2.2.1
             (outL.length + rem - (genSpec c.cl rem outL.length outL).2.2.1.length)
             (calls + (genSpec c.cl rem outL.length outL).2.2.2) fg pl) := by
  intro rem
  induction rem with
  | zero => intro outL calls _; simp [loopOver, genSpec, bst]
  | succ rem ih =>
    intro outL calls hw
    have hw1 : outL.length + 1 < word := by omega
    rw [List.range'_succ, List.map_cons]
    cases hf : c.cl outL.length with
    | none =>
      simp [loopOver, loopBodyOf, Gen.Body.generate, exec, eval, natOf, genSpec, hf, bst]
    | some y =>
      have := ih (outL ++ [y]) (calls + 1) (by simp; omega)
      simp only [List.length_append, List.length_cons, List.length_nil, Nat.zero_add, bst] at this
      simp only [loopOver, genSpec, hf, bst]
      simp [loopBodyOf, Gen.Body.generate, exec, eval, St.obj, St.putObj, O.get, O.put, natOf, hw1, hf,
        repl_set0, erase_fresh] at this ⊢
      rw [this]
      simp
      omega

/-- **`generate`, whole body**: for every length and every generator (returning or panicking at any
    index), interpreting the regenerated body gives exactly the events and the result of the
    ownership model's `generate` -/
theorem generate_body (c : Ctx) (hn : c.n < word) (hb : c.bad = none) (selfO : O) :
    let r := runFn c Gen.Body.intrusiveDrop.body Gen.Body.generate []
      ⟨selfO, ⟨[], 0, 0, 0, []⟩, false, 0, false, 0, false, {}⟩
    (r.1, resOf r.2.1) = ((GA.Ops.generate c.cl c.n).1, some (GA.Ops.generate c.cl c.n).2) := by
  have hl := gen_loop_body c selfO false 0 c.n [] 0 (by simpa using hn)
  simp only [loopBodyOf, Gen.Body.generate, List.length_nil, Nat.zero_add, bst, List.nil_append] at hl
  have hlen := genSpec_len c.cl c.n 0 []
  simp only [GA.Ops.generate, ga_bridge, own_genLoop_eq]
  generalize hq : genSpec c.cl c.n 0 [] = q at hl hlen
  obtain ⟨tr, ok, out, cnt⟩ := q
  simp only [List.length_nil, Nat.zero_add] at hlen
  obtain ⟨_, hle, hfull⟩ := hlen
  simp only at hl hle hfull
  have hd := dropEvs_written out (c.n - out.length)
  cases ok
  · have hle' : out.length ≤ c.n - out.length + out.length := by omega
    collect_simp [Gen.Body.generate, Gen.Body.intrusiveDrop, exec_forSlots, hl, hb, hd, hle']
  · have hlen : out.length = c.n := hfull rfl
    have e0 : c.n - out.length = 0 := by omega
    collect_simp [Gen.Body.generate, Gen.Body.intrusiveDrop, exec_forSlots, hl, hb, hlen, e0]

end GA.Bridge.BodyCollect

namespace GA.Bridge.BodyCollect
open GA.Body GA.Own GA.Bridge.Body

/-! ### `FunctionalSequence::fold` for `GenericArray` (the array moves into an `ArrayConsumer`) -/

theorem foldSpec_cons (fp : Nat → Bool) (x : Nat) (xs : List Nat) (k : Nat) (h : fp k = false) :
    foldSpec fp (x :: xs) k = (.give k x :: (foldSpec fp xs (k + 1)).1, (foldSpec fp xs (k + 1)).2) := by
  simp [foldSpec, callsSpec, h]

theorem foldSpec_panic (fp : Nat → Bool) (x : Nat) (xs : List Nat) (k : Nat) (h : fp k = true) :
    foldSpec fp (x :: xs) k = ([.give k x, .panic k] ++ xs.map .drop, false) := by
  simp [foldSpec, callsSpec, h]

/-- the model's fold loop over an `ArrayConsumer`, in closed form -/
theorem own_foldLoop_eq (f : Nat → Bool) (xs : List Nat) :
    ∀ (fuel j : Nat), xs.length - j < fuel → j ≤ xs.length →
      ((foldLoop (foldSrc (.consumer Gen.Lib.foldPosNew Gen.Lib.foldAdvBeforeCall) f) fuel ⟨xs, j, j⟩).1 ++
        (if (foldLoop (foldSrc (.consumer Gen.Lib.foldPosNew Gen.Lib.foldAdvBeforeCall) f) fuel ⟨xs, j, j⟩).2.1
          then (foldLoop (foldSrc (.consumer Gen.Lib.foldPosNew Gen.Lib.foldAdvBeforeCall) f) fuel ⟨xs, j, j⟩).2.2.dropEv
          else []),
        (foldLoop (foldSrc (.consumer Gen.Lib.foldPosNew Gen.Lib.foldAdvBeforeCall) f) fuel ⟨xs, j, j⟩).2.1)
      = foldSpec (fun k => !f k) (xs.drop j) j := by
  intro fuel
  induction fuel with
  | zero => intro j h; omega
  | succ fuel ih =>
    intro j hf hj
    by_cases hlt : j < xs.length
    · have hx : xs[j]? = some xs[j] := List.getElem?_eq_getElem hlt
      have ihj := ih (j + 1) (by omega) (by omega)
      rw [List.drop_eq_getElem_cons hlt]
      by_cases hfj : f j
      · rw [foldSpec_cons _ _ _ _ (by simp [hfj]), ← ihj]
        simp [foldLoop, foldSrc, hx, hfj, Side.after, Bridge.Lib.foldPosNew_eq, arg, Side.owns]
      · rw [foldSpec_panic _ _ _ _ (by simp [hfj])]
        simp [foldLoop, foldSrc, hx, hfj, Side.after, ga_bridge, Bridge.Lib.foldPosNew_eq, arg, Side.owns, Side.dropEv,
          Consumer.dropEv]
    · have hj' : j = xs.length := by omega
      subst hj'
      simp [foldLoop, foldSrc, foldSpec, callsSpec, Consumer.dropEv, Side.dropEv]

theorem foldOp_owned_eq (f : Nat → Bool) (xs : List Nat) :
    GA.Ops.foldOp .owned f xs = foldSpec (fun k => !f k) xs 0 := by
  have h := own_foldLoop_eq f xs (xs.length + 1) 0 (by omega) (by omega)
  simp only [List.drop_zero] at h
  rw [← h]
  rfl

theorem callsSpec_full (f : Nat → Bool) : ∀ (xs : List Nat) (k : Nat),
    (callsSpec f xs k).2.1 = true → (callsSpec f xs k).2.2 = xs.length
  | [], _, _ => by simp [callsSpec]
  | x :: xs, k, h => by
    unfold callsSpec at h ⊢
    by_cases hf : f k
    · simp [hf] at h
    · simp only [hf, Bool.false_eq_true, if_false] at h ⊢
      simp [callsSpec_full f xs (k + 1) h]

theorem gaFold_loop (c : Ctx) (slots : List Nat) (out : O) (ho fg : Bool) (pl : Nat) (of : Bool) :
    ∀ (r i k : Nat), i + r ≤ slots.length → i + r < word →
      loopOver (loopBody c (loopBodyOf Gen.Body.gaFold.body) []) ((List.range' i r).map (V.slot .self))
          ⟨⟨slots, 0, 0, i, []⟩, out, ho, k, fg, pl, of, {}⟩
        = ((callsSpec c.fpan ((slots.drop i).take r) k).1,
           (if (callsSpec c.fpan ((slots.drop i).take r) k).2.1 then R.ret .unit else R.panicked),
           ⟨⟨slots, 0, 0, i + (callsSpec c.fpan ((slots.drop i).take r) k).2.2, []⟩, out, ho,
             k + (callsSpec c.fpan ((slots.drop i).take r) k).2.2, fg, pl, of, {}⟩) := by
  intro r
  induction r with
  | zero => intro i k _ _; simp [loopOver, callsSpec]
  | succ r ih =>
    intro i k h1 h2
    have hi : i < slots.length := by omega
    have hi1 : i + 1 < word := by omega
    rw [List.range'_succ, List.map_cons, List.drop_eq_getElem_cons hi]
    simp only [List.take_succ_cons, loopOver, callsSpec]
    by_cases hp : c.fpan k
    · simp [loopBody, loopBodyOf, Gen.Body.gaFold, exec, eval, St.obj, St.putObj, O.get, O.put, natOf, hi, hi1, hp]
    · have := ih (i + 1) (k + 1) (by omega) (by omega)
      simp [loopBody, loopBodyOf, Gen.Body.gaFold, exec, eval, St.obj, St.putObj, O.get, O.put, natOf, hi, hi1, hp] at this ⊢
      rw [this]
      simp; omega

/-- **`FunctionalSequence::fold` on an owned array, whole body**: the array moves into an
    `ArrayConsumer`; each element is handed to the closure once, in order; if the closure panics
    on any call, the consumer's destructor (also regenerated) releases exactly the elements not
    yet handed out -/
theorem gaFold_body (xs : List Nat) (hw : xs.length < word) (c : Ctx) (hbad : c.bad = none) (p0 : Nat) :
    let r := runFn c Gen.Body.consumerDrop.body Gen.Body.gaFold []
      ⟨⟨xs, 0, 0, p0, []⟩, ⟨[], 0, 0, 0, []⟩, false, 0, false, 0, false, {}⟩
    (r.1, r.2.1) = ((foldSpec c.fpan xs 0).1, if (foldSpec c.fpan xs 0).2 then R.ret .unit else R.panicked) := by
  have hl := gaFold_loop c xs ⟨[], 0, 0, 0, []⟩ false false 0 false xs.length 0 0 (by omega) (by omega)
  simp only [loopBodyOf, Gen.Body.gaFold, List.drop_zero, List.take_length] at hl
  have hle := callsSpec_le c.fpan xs 0
  generalize hsp : callsSpec c.fpan xs 0 = sp at hl hle
  obtain ⟨ev, ok, cnt⟩ := sp
  simp only at hle
  cases ok
  · have e1 : cnt ≤ xs.length := hle
    body_simp_l [Gen.Body.gaFold, Gen.Body.consumerDrop, positions, hl, foldSpec, hsp, hbad, e1, GA.IterOwn.panics,
      exec_set]
    apply List.take_of_length_le
    simp
  · have hfull : cnt = xs.length := by
      have := callsSpec_full c.fpan xs 0 (by rw [hsp])
      rw [hsp] at this; exact this
    subst hfull
    body_simp_l [Gen.Body.gaFold, Gen.Body.consumerDrop, positions, hl, foldSpec, hsp, hbad, exec_set, GA.IterOwn.panics]

end GA.Bridge.BodyCollect

namespace GA.Bridge.BodyCollect
open GA.Body GA.Own GA.Bridge.Body

/-! ### `FunctionalSequence::map` on an owned array: `from_iter(array_iter.map(|src| …))` -/

/-- the calls `f(x_j), f(x_{j+1}), …`: events, whether all returned, the results written so far -/
def mapSpec (f : Nat → Option Nat) : List Nat → Nat → List Nat → List Ev × Bool × List Nat
  | [], _, out => ([], true, out)
  | x :: rest, j, out =>
    match f j with
    | some y =>
      let r := mapSpec f rest (j + 1) (out ++ [y])
      (.give j x :: .take j y :: r.1, r.2)
    | none => ([.give j x, .panic j], false, out)

theorem mapSpec_len (f : Nat → Option Nat) : ∀ (xs : List Nat) (j : Nat) (out : List Nat),
    out.length ≤ (mapSpec f xs j out).2.2.length ∧ (mapSpec f xs j out).2.2.length ≤ out.length + xs.length ∧
    ((mapSpec f xs j out).2.1 = true → (mapSpec f xs j out).2.2.length = out.length + xs.length) ∧
    ((mapSpec f xs j out).2.1 = false → (mapSpec f xs j out).2.2.length < out.length + xs.length)
  | [], j, out => by simp [mapSpec]
  | x :: rest, j, out => by
    cases hf : f j with
    | none => simp [mapSpec, hf]
    | some y =>
      obtain ⟨a, b, c, d⟩ := mapSpec_len f rest (j + 1) (out ++ [y])
      simp only [List.length_append, List.length_cons, List.length_nil] at a b c d
      simp only [mapSpec, hf, List.length_cons]
      refine ⟨by omega, by omega, fun h => ?_, fun h => ?_⟩
      · have := c h; omega
      · have := d h; omega

/-- the ownership model's fill loop over `mapSrc` (an `ArrayConsumer` side), in closed form -/
theorem own_mapLoop_eq (f : Nat → Option Nat) (xs : List Nat) :
    ∀ (rem j : Nat) (out : List Nat), j + rem ≤ xs.length →
      Own.fillLoop true true (mapSrc (.consumer Gen.Lib.mapPosNew Gen.Lib.mapAdvBeforeCall) f) rem ⟨xs, j, j⟩ out =
        (if (mapSpec f ((xs.drop j).take rem) j out).2.1 then
           ((mapSpec f ((xs.drop j).take rem) j out).1,
             FillRes.full (mapSpec f ((xs.drop j).take rem) j out).2.2 ⟨xs, j + rem, j + rem⟩)
         else
           ((mapSpec f ((xs.drop j).take rem) j out).1 ++ (mapSpec f ((xs.drop j).take rem) j out).2.2.map .drop ++
              (xs.drop (j + ((mapSpec f ((xs.drop j).take rem) j out).2.2.length - out.length) + 1)).map .drop,
             FillRes.panicked)) := by
  intro rem
  induction rem with
  | zero => intro j out _; simp [Own.fillLoop, mapSpec]
  | succ rem ih =>
    intro j out h
    have hj : j < xs.length := by omega
    have hx : xs[j]? = some xs[j] := List.getElem?_eq_getElem hj
    rw [List.drop_eq_getElem_cons hj, List.take_succ_cons]
    cases hf : f j with
    | none =>
      have hstep : (mapSrc (.consumer Gen.Lib.mapPosNew Gen.Lib.mapAdvBeforeCall) f).step ⟨xs, j, j⟩
          = .panic [.give j xs[j], .panic j] ⟨xs, j + 1, j + 1⟩ := by
        simp [mapSrc, hx, hf, Side.after, ga_bridge, Bridge.Lib.mapPosNew_eq, arg, Side.owns]
      simp only [Own.fillLoop, hstep, mapSpec, hf]
      simp [builderDrop, mapSrc, Side.dropEv, Consumer.dropEv]
    | some y =>
      have hstep : (mapSrc (.consumer Gen.Lib.mapPosNew Gen.Lib.mapAdvBeforeCall) f).step ⟨xs, j, j⟩
          = .yield [.give j xs[j], .take j y] y ⟨xs, j + 1, j + 1⟩ := by
        simp [mapSrc, hx, hf, Side.after, ga_bridge, Bridge.Lib.mapPosNew_eq, arg, Side.owns]
      have := ih (j + 1) (out ++ [y]) (by omega)
      have e : j + 1 + rem = j + (rem + 1) := by omega
      obtain ⟨l1, _, _, _⟩ := mapSpec_len f ((xs.drop (j + 1)).take rem) (j + 1) (out ++ [y])
      simp only [List.length_append, List.length_cons, List.length_nil] at l1
      have e2 : j + 1 + ((mapSpec f ((xs.drop (j + 1)).take rem) (j + 1) (out ++ [y])).2.2.length - (out.length + 1)) + 1
          = j + ((mapSpec f ((xs.drop (j + 1)).take rem) (j + 1) (out ++ [y])).2.2.length - out.length) + 1 := by omega
      simp only [Own.fillLoop, hstep, mapSpec, hf, this, e, List.length_append, List.length_cons, List.length_nil, e2]
      split <;> simp

/-- machine state while `map` runs: `j` source elements consumed (= results written, calls made) -/
def mst (xs outL : List Nat) (rem : Nat) (extra : Nat) (fg : Bool) : St :=
  ⟨⟨xs, 0, 0, outL.length + extra, []⟩, ⟨outL ++ List.replicate rem 0, 0, 0, outL.length, List.range' outL.length rem⟩,
    true, outL.length + extra, fg, outL.length + extra, false, {}⟩

theorem exec_fillMapS (c : Ctx) (l0 : Nat) (src : Obj) (clo body k : S) (env : List V) (st : St) :
    exec c (.fillMapS l0 src clo body k) env st =
      match mapLoop src (fun q s => exec c clo (env.take l0 ++ [q]) s) (fun d v s => exec c body (env ++ [d, v]) s)
          (positions .out 0 st.out.slots.length) st with
      | (tr, .ret _, st') =>
        let r := exec c k env st'
        (tr ++ r.1, r.2)
      | r => r := by
  first | rfl | (simp only [exec]; rfl)

def cloOf : S → S
  | .set _ _ _ k => cloOf k
  | .ite _ _ e => cloOf e
  | .newBuilder k => cloOf k
  | .fillMapS _ _ cl _ _ => cl
  | _ => .opaque 0

theorem map_loop_body (c : Ctx) (xs : List Nat) (fg : Bool) :
    ∀ (rem : Nat) (outL : List Nat), outL.length + rem ≤ xs.length → xs.length < word →
      mapLoop .self (fun q s => exec c (cloOf Gen.Body.gaMap.body) (([] : List V).take 0 ++ [q]) s)
          (fun d v s => exec c (loopBodyOf Gen.Body.gaMap.body) ([] ++ [d, v]) s)
          ((List.range' outL.length rem).map (V.slot .out)) (mst xs outL rem 0 fg)
        = ((mapSpec c.cl ((xs.drop outL.length).take rem) outL.length outL).1,
           (if (mapSpec c.cl ((xs.drop outL.length).take rem) outL.length outL).2.1 then R.ret .unit else R.panicked),
           mst xs (mapSpec c.cl ((xs.drop outL.length).take rem) outL.length outL).2.2
             (outL.length + rem - (mapSpec c.cl ((xs.drop outL.length).take rem) outL.length outL).2.2.length)
             (if (mapSpec c.cl ((xs.drop outL.length).take rem) outL.length outL).2.1 then 0 else 1) fg) := by
  intro rem
  induction rem with
  | zero => intro outL _ _; simp [mapLoop, mapSpec, mst]
  | succ rem ih =>
    intro outL h hw
    have hj : outL.length < xs.length := by omega
    have hw1 : outL.length + 1 < word := by omega
    have hx : xs[outL.length]? = some xs[outL.length] := List.getElem?_eq_getElem hj
    rw [List.range'_succ, List.map_cons, List.drop_eq_getElem_cons hj, List.take_succ_cons]
    cases hf : c.cl outL.length with
    | none =>
      simp [mapLoop, mst, cloOf, loopBodyOf, Gen.Body.gaMap, exec, eval, St.obj, St.putObj, O.get, O.put, natOf, hj, hw1,
        hf, mapSpec, hx]
    | some y =>
      have := ih (outL ++ [y]) (by simp; omega) hw
      simp only [List.length_append, List.length_cons, List.length_nil, Nat.zero_add, mst, Nat.add_zero] at this
      simp only [mapLoop, mst, mapSpec, hf, Nat.add_zero]
      simp [cloOf, loopBodyOf, Gen.Body.gaMap, exec, eval, St.obj, St.putObj, O.get, O.put, natOf, hj, hw1, hf, hx,
        repl_set0, erase_fresh] at this ⊢
      rw [this]
      simp
      omega

theorem dropEvs_init (sl : List Nat) (a b p lo hi : Nat) :
    dropEvs ⟨sl, a, b, p, []⟩ lo hi = ((sl.drop lo).take (hi - lo)).map .drop := by
  simp [dropEvs, idsOf]

theorem exec_pollMapS (c : Ctx) (l0 : Nat) (src : Obj) (clo k : S) (env : List V) (st : St) :
    exec c (.pollMapS l0 src clo k) env st =
      if st.polls < (st.obj src).slots.length then
        match exec c clo (env.take l0 ++ [.slot src st.polls]) { st with polls := st.polls + 1 } with
        | (tr, .ret (.elem y), st') =>
          (tr ++ .drop y :: (exec c k (env ++ [.bool true]) st').1, (exec c k (env ++ [.bool true]) st').2)
        | (tr, .ret _, st') => (tr, .ub, st')
        | r => r
      else exec c k (env ++ [.bool false]) st := by
  first | rfl | (simp only [exec]; rfl)

/-- **`FunctionalSequence::map` on an owned array, whole body** — `ArrayConsumer::new`,
    `iter_position`, `FromIterator::from_iter`, `try_from_iter`, `IntrusiveArrayBuilder::{new, extend,
    is_full, finish}` all inlined from their current source, the `Map` adaptor's closure included:
    for every array and every mapping function (returning or panicking at any call) the
    interpretation produces exactly the events and the result of the ownership model's `mapOp`. -/
theorem gaMap_body (xs : List Nat) (hw : xs.length < word) (c : Ctx) (hn : c.n = xs.length) (hb : c.bad = none) (p0 : Nat) :
    let r := runFn2 c Gen.Body.consumerDrop.body Gen.Body.intrusiveDrop.body Gen.Body.gaMap []
      ⟨⟨xs, 0, 0, p0, []⟩, ⟨[], 0, 0, 0, []⟩, false, 0, false, 0, false, {}⟩
    (r.1, resOf r.2.1) = ((GA.Ops.mapOp .owned c.cl xs).1, some (GA.Ops.mapOp .owned c.cl xs).2) := by
  have hl := map_loop_body c xs false xs.length [] (by simp) hw
  simp only [cloOf, loopBodyOf, Gen.Body.gaMap, List.length_nil, Nat.zero_add, mst, List.nil_append, List.drop_zero,
    List.take_length, List.take_nil] at hl
  have hlen := mapSpec_len c.cl xs 0 []
  have hm := own_mapLoop_eq c.cl xs xs.length 0 [] (by omega)
  simp only [List.drop_zero, List.take_length, Nat.zero_add, List.length_nil, Nat.sub_zero] at hm
  have hrej : hintReject canonFrags (xs.length, some xs.length) xs.length = false := by simp [hintReject, canonFrags]
  simp only [GA.Ops.mapOp, libFrags_eq, Own.fromIter, Own.tryFromIter, hrej, Bool.false_eq_true, if_false, Consumer.ofList]
  rw [show canonFrags.writeBeforeCount = true from rfl, show canonFrags.destFirst = true from rfl, hm]
  generalize hq : mapSpec c.cl xs 0 [] = q at hl hlen
  obtain ⟨tr, ok, out⟩ := q
  simp only [List.length_nil, Nat.zero_add] at hlen
  obtain ⟨_, hle, hfull, hpart⟩ := hlen
  simp only at hl hle hfull hpart
  have hd := dropEvs_written out (xs.length - out.length)
  cases ok
  · have hlt : out.length < xs.length := hpart rfl
    have hle' : out.length ≤ xs.length - out.length + out.length := by omega
    have hle2 : out.length + 1 ≤ xs.length := by omega
    simp [runFn2, runDropOn, exec_fillMapS, exec_pollMapS, exec_ite, exec_newBuilder, exec_forgetO_out, exec_lenFail,
      exec_endOut, exec_done, exec_drop, exec_set, eval, St.obj, St.putObj, O.get, O.put, natOf, boolOf, resolve,
      GA.Body.panics, resOf, positions, List.range_eq_range', Gen.Body.gaMap, Gen.Body.intrusiveDrop,
      Gen.Body.consumerDrop, hn, hl, hb, hd, hle', hle2, dropEvs_init, idsOf]
    apply List.take_of_length_le
    simp
  · have hlen' : out.length = xs.length := hfull rfl
    have e0 : xs.length - out.length = 0 := by omega
    have hstep : (mapSrc (Side.consumer Gen.Lib.mapPosNew Gen.Lib.mapAdvBeforeCall) c.cl).step ⟨xs, xs.length, xs.length⟩
        = .done [] ⟨xs, xs.length, xs.length⟩ := by simp [mapSrc]
    simp [runFn2, runDropOn, exec_fillMapS, exec_pollMapS, exec_ite, exec_newBuilder, exec_forgetO_out, exec_lenFail,
      exec_endOut, exec_done, exec_drop, exec_set, eval, St.obj, St.putObj, O.get, O.put, natOf, boolOf, resolve,
      GA.Body.panics, resOf, positions, List.range_eq_range', Gen.Body.gaMap, Gen.Body.intrusiveDrop,
      Gen.Body.consumerDrop, hn, hl, hb, hlen', e0, dropEvs, idsOf, canonFrags, hstep, mapSrc, Side.dropEv,
      Consumer.dropEv]

end GA.Bridge.BodyCollect
