import GA.Gen.Iter
import GA.Lemmas.Tac
import GA.Lemmas.Attr
/-! Statement-order obligations of src/iter.rs that the panic-safety properties (C04, C05) need. -/
namespace GA.Bridge.IterOwn
open GA.Gen.Iter

/-- `nth`: the index excludes the skipped range *before* that range's destructors run -/
theorem nthAdvanceBeforeDrop_eq : nthAdvanceBeforeDrop = true := by bridge_bool [nthAdvanceBeforeDrop]
theorem nthBackAdvanceBeforeDrop_eq : nthBackAdvanceBeforeDrop = true := by bridge_bool [nthBackAdvanceBeforeDrop]
/-- `Clone`: the partially built copy is owned by a droppable value while `T::clone` runs -/
theorem cloneGuarded_eq : cloneGuarded = true := by bridge_bool [cloneGuarded]

end GA.Bridge.IterOwn
