import GA.Gen.Surface
/-!
Function inventory of `src/impl_serde.rs`: the regenerated list of `impl` / `trait` blocks and module-level functions with the
functions each defines is exactly the one the models, theorems and scenario generators were written against.  A new
function (a trait method that used to be the trait's default and is now overridden, a new inherent method, a new
conversion) is code no model covers; this obligation fails and the check widens its search.
-/
namespace GA.Bridge.Surface.ImplSerde
open GA.Gen.Surface

/-- the inventory of one file -/
def ofFile (f : String) : List (String × List String) := (surface.filter (fun r => r.1 == f)).map (fun r => r.2)

theorem inventory : ofFile "impl_serde.rs" = [
    ("impl SerializeforGenericArray<T,N>", ["serialize"]),
    ("impl Deserialize<'de>forDummy", ["deserialize"]),
    ("impl Visitor<'de>forGAVisitor<T,N>", ["expecting", "visit_seq"]),
    ("impl Deserialize<'de>forGenericArray<T,N>", ["deserialize"]),
    ("<free>", ["test_serialize", "test_deserialize", "test_serialized_size", "test_too_many"])] := by decide

/-- no source file outside the inventory -/
theorem no_other_files : otherFiles = [] := by decide

end GA.Bridge.Surface.ImplSerde
