import GA.Gen.Surface
/-!
Function inventory of `src/iter.rs`: the regenerated list of `impl` / `trait` blocks and module-level functions with the
functions each defines is exactly the one the models, theorems and scenario generators were written against.  A new
function (a trait method that used to be the trait's default and is now overridden, a new inherent method, a new
conversion) is code no model covers; this obligation fails and the check widens its search.
-/
namespace GA.Bridge.Surface.Iter
open GA.Gen.Surface

/-- the inventory of one file -/
def ofFile (f : String) : List (String × List String) := (surface.filter (fun r => r.1 == f)).map (fun r => r.2)

theorem inventory : ofFile "iter.rs" = [
    ("impl GenericArrayIter<T,N>", ["as_slice", "as_mut_slice"]),
    ("impl IntoIteratorforGenericArray<T,N>", ["into_iter"]),
    ("impl fmt::DebugforGenericArrayIter<T,N>", ["fmt"]),
    ("impl DropforGenericArrayIter<T,N>", ["drop"]),
    ("impl CloneforGenericArrayIter<T,N>", ["clone"]),
    ("impl IteratorforGenericArrayIter<T,N>", ["next", "fold", "size_hint", "count", "nth", "last"]),
    ("impl DoubleEndedIteratorforGenericArrayIter<T,N>", ["next_back", "rfold", "nth_back"]),
    ("impl ExactSizeIteratorforGenericArrayIter<T,N>", ["len"]),
    ("impl FusedIteratorforGenericArrayIter<T,N>", []),
    ("<free>", ["send", "test_send_iter"])] := by decide

/-- no source file outside the inventory -/
theorem no_other_files : otherFiles = [] := by decide

end GA.Bridge.Surface.Iter
