import GA.Gen.Surface
/-!
Function inventory of `src/impl_alloc.rs`: the regenerated list of `impl` / `trait` blocks and module-level functions with the
functions each defines is exactly the one the models, theorems and scenario generators were written against.  A new
function (a trait method that used to be the trait's default and is now overridden, a new inherent method, a new
conversion) is code no model covers; this obligation fails and the check widens its search.
-/
namespace GA.Bridge.Surface.ImplAlloc
open GA.Gen.Surface

/-- the inventory of one file -/
def ofFile (f : String) : List (String × List String) := (surface.filter (fun r => r.1 == f)).map (fun r => r.2)

theorem inventory : ofFile "impl_alloc.rs" = [
    ("impl TryFrom<Vec<T>>forGenericArray<T,N>", ["try_from"]),
    ("impl GenericArray<T,N>", ["into_boxed_slice", "into_vec", "try_from_boxed_slice", "try_from_vec", "default_boxed", "try_boxed_from_iter"]),
    ("impl TryFrom<Box<[T]>>forGenericArray<T,N>", ["try_from"]),
    ("impl From<GenericArray<T,N>>forBox<[T]>", ["from"]),
    ("impl From<GenericArray<T,N>>forVec<T>", ["from"]),
    ("impl IntoIteratorforBox<GenericArray<T,N>>", ["into_iter"]),
    ("impl FromIterator<T>forBox<GenericArray<T,N>>", ["from_iter"]),
    ("impl DropforDeallocOnDrop", ["drop"]),
    ("impl GenericSequence<T>forBox<GenericArray<T,N>>", ["generate"]),
    ("impl MappedGenericSequence<T,U>forBox<GenericArray<T,N>>", []),
    ("impl FunctionalSequence<T>forBox<GenericArray<T,N>>", [])] := by decide

/-- no source file outside the inventory -/
theorem no_other_files : otherFiles = [] := by decide

end GA.Bridge.Surface.ImplAlloc
