import GA.Gen.Surface
/-!
Function inventory of `src/sequence.rs`: the regenerated list of `impl` / `trait` blocks and module-level functions with the
functions each defines is exactly the one the models, theorems and scenario generators were written against.  A new
function (a trait method that used to be the trait's default and is now overridden, a new inherent method, a new
conversion) is code no model covers; this obligation fails and the check widens its search.
-/
namespace GA.Bridge.Surface.Sequence
open GA.Gen.Surface

/-- the inventory of one file -/
def ofFile (f : String) : List (String × List String) := (surface.filter (fun r => r.1 == f)).map (fun r => r.2)

theorem inventory : ofFile "sequence.rs" = [
    ("trait GenericSequence<T>", ["generate", "inverted_zip", "inverted_zip2"]),
    ("impl GenericSequence<T>for&'aS", ["generate"]),
    ("impl GenericSequence<T>for&'amutS", ["generate"]),
    ("trait Lengthen<T>", ["append", "prepend"]),
    ("trait Shorten<T>", ["pop_back", "pop_front"]),
    ("impl Lengthen<T>forGenericArray<T,N>", ["append", "prepend"]),
    ("impl Shorten<T>forGenericArray<T,N>", ["pop_back", "pop_front"]),
    ("trait Split<T,K", ["split"]),
    ("impl Split<T,K>forGenericArray<T,N>", ["split"]),
    ("impl Split<T,K>for&'aGenericArray<T,N>", ["split"]),
    ("impl Split<T,K>for&'amutGenericArray<T,N>", ["split"]),
    ("trait Concat<T,M", ["concat"]),
    ("impl Concat<T,M>forGenericArray<T,N>", ["concat"]),
    ("trait Remove<T,N", ["remove", "swap_remove", "remove_unchecked", "swap_remove_unchecked"]),
    ("impl Remove<T,N>forGenericArray<T,N>", ["remove_unchecked", "swap_remove_unchecked"]),
    ("trait Flatten<T,N,M>", ["flatten"]),
    ("trait Unflatten<T,NM,N>", ["unflatten"]),
    ("impl Flatten<T,N,M>forGenericArray<GenericArray<T,N>,M>", ["flatten"]),
    ("impl Flatten<T,N,M>for&'aGenericArray<GenericArray<T,N>,M>", ["flatten"]),
    ("impl Flatten<T,N,M>for&'amutGenericArray<GenericArray<T,N>,M>", ["flatten"]),
    ("impl Unflatten<T,NM,N>forGenericArray<T,NM>", ["unflatten"]),
    ("impl Unflatten<T,NM,N>for&'aGenericArray<T,NM>", ["unflatten"]),
    ("impl Unflatten<T,NM,N>for&'amutGenericArray<T,NM>", ["unflatten"])] := by decide

/-- no source file outside the inventory -/
theorem no_other_files : otherFiles = [] := by decide

end GA.Bridge.Surface.Sequence
