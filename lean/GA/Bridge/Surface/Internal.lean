import GA.Gen.Surface
/-!
Function inventory of `src/internal.rs`: the regenerated list of `impl` / `trait` blocks and module-level functions with the
functions each defines is exactly the one the models, theorems and scenario generators were written against.  A new
function (a trait method that used to be the trait's default and is now overridden, a new inherent method, a new
conversion) is code no model covers; this obligation fails and the check widens its search.
-/
namespace GA.Bridge.Surface.Internal
open GA.Gen.Surface

/-- the inventory of one file -/
def ofFile (f : String) : List (String × List String) := (surface.filter (fun r => r.1 == f)).map (fun r => r.2)

theorem inventory : ofFile "internal.rs" = [
    ("trait Sealed", []),
    ("impl Sealedfor[T;0]", []),
    ("impl ArrayBuilder<T,N>", ["new", "extend", "is_full", "iter_position", "assume_init"]),
    ("impl DropforArrayBuilder<T,N>", ["drop"]),
    ("impl IntrusiveArrayBuilder<'a,T,N>", ["new", "extend", "is_full", "iter_position", "finish", "array_assume_init"]),
    ("impl DropforIntrusiveArrayBuilder<'_,T,N>", ["drop"]),
    ("impl ArrayConsumer<T,N>", ["new", "iter_position"]),
    ("impl DropforArrayConsumer<T,N>", ["drop"])] := by decide

/-- no source file outside the inventory -/
theorem no_other_files : otherFiles = [] := by decide

end GA.Bridge.Surface.Internal
