import GA.Gen.Surface
/-!
Function inventory of `src/impls.rs`: the regenerated list of `impl` / `trait` blocks and module-level functions with the
functions each defines is exactly the one the models, theorems and scenario generators were written against.  A new
function (a trait method that used to be the trait's default and is now overridden, a new inherent method, a new
conversion) is code no model covers; this obligation fails and the check widens its search.
-/
namespace GA.Bridge.Surface.Impls
open GA.Gen.Surface

/-- the inventory of one file -/
def ofFile (f : String) : List (String × List String) := (surface.filter (fun r => r.1 == f)).map (fun r => r.2)

theorem inventory : ofFile "impls.rs" = [
    ("impl DefaultforGenericArray<T,N>", ["default"]),
    ("impl CloneforGenericArray<T,N>", ["clone"]),
    ("impl CopyforGenericArray<T,N>", []),
    ("impl PartialEqforGenericArray<T,N>", ["eq"]),
    ("impl EqforGenericArray<T,N>", []),
    ("impl PartialOrdforGenericArray<T,N>", ["partial_cmp"]),
    ("impl OrdforGenericArray<T,N>", ["cmp"]),
    ("impl DebugforGenericArray<T,N>", ["fmt"]),
    ("impl Borrow<[T]>forGenericArray<T,N>", ["borrow"]),
    ("impl BorrowMut<[T]>forGenericArray<T,N>", ["borrow_mut"]),
    ("impl AsRef<[T]>forGenericArray<T,N>", ["as_ref"]),
    ("impl AsMut<[T]>forGenericArray<T,N>", ["as_mut"]),
    ("impl HashforGenericArray<T,N>", ["hash"]),
    ("impl From<[T;N]>forGenericArray<T,ConstArrayLength<N>>", ["from"]),
    ("impl From<GenericArray<T,ConstArrayLength<N>>>for[T;N]", ["from"]),
    ("impl From<&'a[T;N]>for&'aGenericArray<T,ConstArrayLength<N>>", ["from"]),
    ("impl From<&'amut[T;N]>for&'amutGenericArray<T,ConstArrayLength<N>>", ["from"]),
    ("impl AsRef<[T;N]>forGenericArray<T,ConstArrayLength<N>>", ["as_ref"]),
    ("impl AsMut<[T;N]>forGenericArray<T,ConstArrayLength<N>>", ["as_mut"]),
    ("<free>", ["test_from_inference"])] := by decide

/-- no source file outside the inventory -/
theorem no_other_files : otherFiles = [] := by decide

end GA.Bridge.Surface.Impls
