import GA.Gen.Surface
/-!
Function inventory of `src/functional.rs`: the regenerated list of `impl` / `trait` blocks and module-level functions with the
functions each defines is exactly the one the models, theorems and scenario generators were written against.  A new
function (a trait method that used to be the trait's default and is now overridden, a new inherent method, a new
conversion) is code no model covers; this obligation fails and the check widens its search.
-/
namespace GA.Bridge.Surface.Functional
open GA.Gen.Surface

/-- the inventory of one file -/
def ofFile (f : String) : List (String × List String) := (surface.filter (fun r => r.1 == f)).map (fun r => r.2)

theorem inventory : ofFile "functional.rs" = [
    ("trait MappedGenericSequence<T,U>", []),
    ("impl MappedGenericSequence<T,U>for&'aS", []),
    ("impl MappedGenericSequence<T,U>for&'amutS", []),
    ("trait FunctionalSequence<T>", ["map", "zip", "fold"]),
    ("impl FunctionalSequence<T>for&'aS", []),
    ("impl FunctionalSequence<T>for&'amutS", [])] := by decide

/-- no source file outside the inventory -/
theorem no_other_files : otherFiles = [] := by decide

end GA.Bridge.Surface.Functional
