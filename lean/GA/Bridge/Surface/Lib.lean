import GA.Gen.Surface
/-!
Function inventory of `src/lib.rs`: the regenerated list of `impl` / `trait` blocks and module-level functions with the
functions each defines is exactly the one the models, theorems and scenario generators were written against.  A new
function (a trait method that used to be the trait's default and is now overridden, a new inherent method, a new
conversion) is code no model covers; this obligation fails and the check widens its search.
-/
namespace GA.Bridge.Surface.Lib
open GA.Gen.Surface

/-- the inventory of one file -/
def ofFile (f : String) : List (String × List String) := (surface.filter (fun r => r.1 == f)).map (fun r => r.2)

theorem inventory : ofFile "lib.rs" = [
    ("trait ArrayLength", []),
    ("impl ArrayLengthforUTerm", []),
    ("trait IntoArrayLength", []),
    ("impl IntoArrayLengthforConst<N>", []),
    ("impl IntoArrayLengthforN", []),
    ("impl CloneforGenericArrayImplEven<T,U>", ["clone"]),
    ("impl CloneforGenericArrayImplOdd<T,U>", ["clone"]),
    ("impl CopyforGenericArrayImplEven<T,U>", []),
    ("impl CopyforGenericArrayImplOdd<T,U>", []),
    ("impl SealedforGenericArrayImplEven<T,U>", []),
    ("impl SealedforGenericArrayImplOdd<T,U>", []),
    ("impl ArrayLengthforUInt<N,B0>", []),
    ("impl ArrayLengthforUInt<N,B1>", []),
    ("impl SendforGenericArray<T,N>", []),
    ("impl SyncforGenericArray<T,N>", []),
    ("impl DerefforGenericArray<T,N>", ["deref"]),
    ("impl DerefMutforGenericArray<T,N>", ["deref_mut"]),
    ("impl IntoIteratorfor&'aGenericArray<T,N>", ["into_iter"]),
    ("impl IntoIteratorfor&'amutGenericArray<T,N>", ["into_iter"]),
    ("impl FromIterator<T>forGenericArray<T,N>", ["from_iter"]),
    ("impl GenericSequence<T>forGenericArray<T,N>", ["generate", "inverted_zip", "inverted_zip2"]),
    ("impl MappedGenericSequence<T,U>forGenericArray<T,N>", []),
    ("impl FunctionalSequence<T>forGenericArray<T,N>", ["map", "zip", "fold"]),
    ("impl GenericArray<T,N>", ["len", "as_slice", "as_mut_slice", "from_slice", "try_from_slice", "from_mut_slice", "try_from_mut_slice", "chunks_from_slice", "chunks_from_slice_mut", "slice_from_chunks", "slice_from_chunks_mut", "from_array", "into_array", "from_chunks", "from_chunks_mut", "into_chunks", "into_chunks_mut"]),
    ("impl GenericArray<T,N>", ["uninit", "assume_init"]),
    ("impl core::fmt::DisplayforLengthError", ["fmt"]),
    ("impl TryFrom<&'a[T]>for&'aGenericArray<T,N>", ["try_from"]),
    ("impl TryFrom<&'amut[T]>for&'amutGenericArray<T,N>", ["try_from"]),
    ("impl GenericArray<T,N>", ["try_from_iter"]),
    ("<free>", ["from_iter_length_fail", "black_box", "test_assembly"])] := by decide

/-- no source file outside the inventory -/
theorem no_other_files : otherFiles = [] := by decide

end GA.Bridge.Surface.Lib
