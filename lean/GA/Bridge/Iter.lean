import GA.Gen.Iter
import GA.Lemmas.Tac
import GA.Lemmas.Attr
/-!
Bridge obligations for `src/iter.rs`: every regenerated fragment equals its canonical reading.
Re-proved on every run; a failure here means the source no longer says what the model's
theorems assume.
-/
namespace GA.Bridge.Iter
open GA.Gen.Iter

@[ga_bridge] theorem len_eq (i b : Nat) : len i b = b - i := by bridge_nat [len]
@[ga_bridge] theorem nextCond_eq (i b : Nat) : nextCond i b = decide (i < b) := by
  bridge_bool [nextCond]
@[ga_bridge] theorem nextRead_eq (i b : Nat) : nextRead i b = i := by bridge_nat [nextRead]
@[ga_bridge] theorem nextAdv_eq (i : Nat) : nextAdv i = i + 1 := by bridge_nat [nextAdv]
@[ga_bridge] theorem nextReadBeforeAdv_eq : nextReadBeforeAdv = true := by bridge_bool [nextReadBeforeAdv]
@[ga_bridge] theorem nextBackCond_eq (i b : Nat) : nextBackCond i b = decide (i < b) := by
  bridge_bool [nextBackCond]
@[ga_bridge] theorem nextBackAdv_eq (b : Nat) : nextBackAdv b = b - 1 := by bridge_nat [nextBackAdv]
@[ga_bridge] theorem nextBackRead_eq (i b : Nat) : nextBackRead i b = b := by bridge_nat [nextBackRead]
@[ga_bridge] theorem nextBackDecBeforeRead_eq : nextBackDecBeforeRead = true := by bridge_bool [nextBackDecBeforeRead]
@[ga_bridge] theorem nthNext_eq (i b n : Nat) : nthNext i b n = i + min n (b - i) := by
  bridge_nat [nthNext, len]
@[ga_bridge] theorem nthDropLo_eq (i b n : Nat) : nthDropLo i b n = i := by bridge_nat [nthDropLo]
@[ga_bridge] theorem nthDropHi_eq (i b n : Nat) : nthDropHi i b n = i + min n (b - i) := by
  bridge_nat [nthDropHi]
@[ga_bridge] theorem nthBackNext_eq (i b n : Nat) : nthBackNext i b n = b - min n (b - i) := by
  bridge_nat [nthBackNext, len]
@[ga_bridge] theorem nthBackDropLo_eq (i b n : Nat) : nthBackDropLo i b n = b - min n (b - i) := by
  bridge_nat [nthBackDropLo]
@[ga_bridge] theorem nthBackDropHi_eq (i b n : Nat) : nthBackDropHi i b n = b := by bridge_nat [nthBackDropHi]
@[ga_bridge] theorem sliceLo_eq (i b : Nat) : sliceLo i b = i := by bridge_nat [sliceLo]
@[ga_bridge] theorem sliceHi_eq (i b : Nat) : sliceHi i b = b := by bridge_nat [sliceHi]
@[ga_bridge] theorem sliceMutLo_eq (i b : Nat) : sliceMutLo i b = i := by bridge_nat [sliceMutLo]
@[ga_bridge] theorem sliceMutHi_eq (i b : Nat) : sliceMutHi i b = b := by bridge_nat [sliceMutHi]
@[ga_bridge] theorem foldLo_eq (i b : Nat) : foldLo i b = i := by bridge_nat [foldLo]
@[ga_bridge] theorem foldHi_eq (i b : Nat) : foldHi i b = b := by bridge_nat [foldHi]
@[ga_bridge] theorem rfoldLo_eq (i b : Nat) : rfoldLo i b = i := by bridge_nat [rfoldLo]
@[ga_bridge] theorem rfoldHi_eq (i b : Nat) : rfoldHi i b = b := by bridge_nat [rfoldHi]
@[ga_bridge] theorem initFront_eq (n : Nat) : initFront n = 0 := by bridge_nat [initFront]
@[ga_bridge] theorem initBack_eq (n : Nat) : initBack n = n := by bridge_nat [initBack]
@[ga_bridge] theorem countIsLen_eq : countIsLen = true := by bridge_bool [countIsLen]
@[ga_bridge] theorem lastIsNextBack_eq : lastIsNextBack = true := by bridge_bool [lastIsNextBack]
@[ga_bridge] theorem sizeHintExact_eq : sizeHintExact = true := by bridge_bool [sizeHintExact]
@[ga_bridge] theorem nthThenNext_eq : nthThenNext = true := by bridge_bool [nthThenNext]
@[ga_bridge] theorem nthBackThenNextBack_eq : nthBackThenNextBack = true := by bridge_bool [nthBackThenNextBack]
@[ga_bridge] theorem foldAdv_eq (i : Nat) : foldAdv i = i + 1 := by bridge_nat [foldAdv]
@[ga_bridge] theorem rfoldAdv_eq (b : Nat) : rfoldAdv b = b - 1 := by bridge_nat [rfoldAdv]
@[ga_bridge] theorem foldAdvBeforeCall_eq : foldAdvBeforeCall = true := by bridge_bool [foldAdvBeforeCall]
@[ga_bridge] theorem foldReadBeforeAdv_eq : foldReadBeforeAdv = true := by bridge_bool [foldReadBeforeAdv]
@[ga_bridge] theorem rfoldAdvBeforeCall_eq : rfoldAdvBeforeCall = true := by bridge_bool [rfoldAdvBeforeCall]
@[ga_bridge] theorem rfoldReadBeforeAdv_eq : rfoldReadBeforeAdv = true := by bridge_bool [rfoldReadBeforeAdv]
@[ga_bridge] theorem foldForgets_eq : foldForgets = true := by bridge_bool [foldForgets]
@[ga_bridge] theorem rfoldForgets_eq : rfoldForgets = true := by bridge_bool [rfoldForgets]
@[ga_bridge] theorem cloneWriteBeforeCount_eq : cloneWriteBeforeCount = true := by bridge_bool [cloneWriteBeforeCount]
@[ga_bridge] theorem dropIsLiveSlice_eq : dropIsLiveSlice = true := by bridge_bool [dropIsLiveSlice]

/-! no-underflow side conditions of every extracted `-` hold under the representation invariant -/
theorem lenOk_of (i b : Nat) (h : i ≤ b) : lenOk i b = true := by
  simp [lenOk]; omega
theorem nextBackAdvOk_of (i b : Nat) (h : i < b) : nextBackAdvOk b = true := by
  simp [nextBackAdvOk]; omega
theorem nthNextOk_of (i b n : Nat) (h : i ≤ b) : nthNextOk i b n = true := by
  simp [nthNextOk]; omega
theorem nthBackNextOk_of (i b n : Nat) (h : i ≤ b) : nthBackNextOk i b n = true := by
  simp [nthBackNextOk]; omega

/-! no `+` of the index arithmetic wraps around the machine word, for *every* argument `n`
    (also `usize::MAX`), as long as the array length itself fits (`b ≤ N < 2^64`) -/
theorem nthNextNoOvf_of (i b n : Nat) (h : i ≤ b) (hb : b < 18446744073709551616) : nthNextNoOvf i b n = true := by
  simp only [nthNextNoOvf, decide_eq_true_eq, Bool.and_eq_true]; omega
theorem nthDropHiNoOvf_of (i b n : Nat) (h : i ≤ b) (hb : b < 18446744073709551616) : nthDropHiNoOvf i b n = true := by
  simp only [nthDropHiNoOvf, decide_eq_true_eq, Bool.and_eq_true]; omega
theorem nextAdvNoOvf_of (i b : Nat) (h : i < b) (hb : b < 18446744073709551616) : nextAdvNoOvf i = true := by
  simp only [nextAdvNoOvf, decide_eq_true_eq, Bool.and_eq_true]; omega
theorem foldAdvNoOvf_of (i b : Nat) (h : i < b) (hb : b < 18446744073709551616) : foldAdvNoOvf i = true := by
  simp only [foldAdvNoOvf, decide_eq_true_eq, Bool.and_eq_true]; omega

end GA.Bridge.Iter
