import GA.Gen.Body
import GA.Model.BodyIter
import GA.Model.Iter
import GA.Model.IterOwn
import GA.Lemmas.Iter
/-!
Refinement obligations of the whole-body tie: interpreting the regenerated body ASTs
(`GA.Gen.Body`, produced by `tools/bodyx.py` from the current source of `src/iter.rs` and
`src/internal.rs`) gives exactly the hand-written models that the property theorems are about.
-/
namespace GA.Bridge.Body
open GA.Body GA.Iter GA.Own
open GA.BodyIter (ofIter toIter)

def outR : IOut → R
  | .item (some x) => .ret (.some (.elem x))
  | .item none => .ret .none
  | .num n => .ret (.nat n)
  | .hint lo hi => .ret (.pair (.nat lo) (match hi with | some h => .some (.nat h) | none => .none))
  | .items l => .ret (.dbg l)
  | .unit => .ret .unit
  | .oob => .panicked
  | .ub => .ub

def quiet (n : Nat) : Ctx := ⟨n, none, fun _ => false, fun _ => none, fun _ => .done, (0, none), {}⟩

theorem panics_eq (ids : List Nat) (bad : Option Nat) : GA.Body.panics ids bad = GA.IterOwn.panics ids bad := by
  cases bad <;> rfl

open Lean.Parser.Tactic in
/-- unfold the interpreter on a concrete body -/
macro "body_simp" "[" ts:simpLemma,* "]" : tactic =>
  `(tactic| simp [runFn, runDropOn, exec, eval, loopOver, GA.BodyIter.ofIter, St.obj, St.putObj, O.get, O.put, natOf, boolOf,
      resolve, idsOf, dropEvs, panics_eq, outR, $ts,*])

def resR : GA.IterOwn.NthRes → R
  | .item (some x) => .ret (.some (.elem x))
  | .item none => .ret .none
  | .panicked => .panicked
  | .ub => .ub

/-- the event recording that a returned element passes to the caller (the models log it, the
    interpreter returns it as the function's value) -/
def retGive : R → List Ev
  | .ret (.some (.elem x)) => [.give 0 x]
  | _ => []

theorem word_eq : word = 18446744073709551616 := rfl

/-! ### `src/iter.rs`, straight-line methods -/

theorem next_body (it : Iter) (h : Inv it) (hw : it.slots.length < word) (c : Ctx) :
    runFn c Gen.Body.dropIter.body Gen.Body.next [] (ofIter it)
      = ([], outR (Iter.next it).1, ofIter (Iter.next it).2) := by
  obtain ⟨h1, h2⟩ := h
  by_cases hlt : it.front < it.back
  · have hb : it.front < it.slots.length := by omega
    have ho : it.front + 1 < word := by omega
    body_simp [Gen.Body.next, Iter.next, Gen.Iter.nextCond, Gen.Iter.nextAdv, Gen.Iter.nextRead,
      Gen.Iter.nextReadBeforeAdv, hlt, hb, ho, readSlot]
  · body_simp [Gen.Body.next, Iter.next, Gen.Iter.nextCond, hlt]

theorem nextBack_body (it : Iter) (h : Inv it) (c : Ctx) :
    runFn c Gen.Body.dropIter.body Gen.Body.nextBack [] (ofIter it)
      = ([], outR (Iter.nextBack it).1, ofIter (Iter.nextBack it).2) := by
  obtain ⟨h1, h2⟩ := h
  by_cases hlt : it.front < it.back
  · have hb : it.back - 1 < it.slots.length := by omega
    have h1' : 1 ≤ it.back := by omega
    body_simp [Gen.Body.nextBack, Iter.nextBack, Gen.Iter.nextBackCond, Gen.Iter.nextBackAdv, Gen.Iter.nextBackRead,
      Gen.Iter.nextBackDecBeforeRead, Gen.Iter.nextBackAdvOk, hlt, hb, h1', readSlot]
  · body_simp [Gen.Body.nextBack, Iter.nextBack, Gen.Iter.nextBackCond, hlt]

theorem len_body (it : Iter) (h : Inv it) (c : Ctx) :
    runFn c Gen.Body.dropIter.body Gen.Body.len [] (ofIter it)
      = ([], outR (Iter.step it .len).1, ofIter it) := by
  obtain ⟨h1, h2⟩ := h
  body_simp [Gen.Body.len, Iter.step, Gen.Iter.len, Gen.Iter.lenOk, h1]

theorem sizeHint_body (it : Iter) (h : Inv it) (c : Ctx) :
    runFn c Gen.Body.dropIter.body Gen.Body.sizeHint [] (ofIter it)
      = ([], outR (Iter.step it .sizeHint).1, ofIter it) := by
  obtain ⟨h1, h2⟩ := h
  body_simp [Gen.Body.sizeHint, Iter.step, Gen.Iter.len, Gen.Iter.lenOk, Gen.Iter.sizeHintExact, h1]

theorem nth_body (it : Iter) (n : Nat) (h : Inv it) (hw : it.slots.length < word) (c : Ctx) :
    let r := runFn c Gen.Body.dropIter.body Gen.Body.nth [.nat n] (ofIter it)
    let m := GA.IterOwn.nthD it n c.bad
    (r.1 ++ retGive r.2.1, r.2.1, r.2.2) = (m.1, resR m.2.1, ofIter m.2.2) := by
  obtain ⟨h1, h2⟩ := h
  generalize hk : min n (it.back - it.front) = k
  have hk1 : it.front + k ≤ it.back := by omega
  have hk2 : it.front + k ≤ it.slots.length := by omega
  have hk3 : it.front + k < word := by omega
  by_cases hp : GA.IterOwn.panics ((it.slots.drop it.front).take k) c.bad
  · body_simp [Gen.Body.nth, GA.IterOwn.nthD, Gen.Iter.nthDropLo, Gen.Iter.nthDropHi, Gen.Iter.nthNext,
      Gen.Iter.nthThenNext, Gen.Iter.nthNextOk, Gen.Iter.nthAdvanceBeforeDrop, rangeOk, h1, hk, hk1, hk2, hk3,
      sliceOf, hp, retGive, resR]
  · by_cases hlt : it.front + k < it.back
    · have hb : it.front + k < it.slots.length := by omega
      have ho : it.front + k + 1 < word := by omega
      body_simp [Gen.Body.nth, GA.IterOwn.nthD, Gen.Iter.nthDropLo, Gen.Iter.nthDropHi, Gen.Iter.nthNext,
        Gen.Iter.nthThenNext, Gen.Iter.nthNextOk, Gen.Iter.nthAdvanceBeforeDrop, rangeOk, h1, hk, hk1, hk2, hk3,
        sliceOf, hp, retGive, resR, GA.IterOwn.afterNext, Iter.next, Gen.Iter.nextCond, Gen.Iter.nextAdv,
        Gen.Iter.nextRead, Gen.Iter.nextReadBeforeAdv, readSlot, hlt, hb, ho]
    · body_simp [Gen.Body.nth, GA.IterOwn.nthD, Gen.Iter.nthDropLo, Gen.Iter.nthDropHi, Gen.Iter.nthNext,
        Gen.Iter.nthThenNext, Gen.Iter.nthNextOk, Gen.Iter.nthAdvanceBeforeDrop, rangeOk, h1, hk, hk1, hk2, hk3,
        sliceOf, hp, retGive, resR, GA.IterOwn.afterNext, Iter.next, Gen.Iter.nextCond, hlt]

theorem nthBack_body (it : Iter) (n : Nat) (h : Inv it) (c : Ctx) :
    let r := runFn c Gen.Body.dropIter.body Gen.Body.nthBack [.nat n] (ofIter it)
    let m := GA.IterOwn.nthBackD it n c.bad
    (r.1 ++ retGive r.2.1, r.2.1, r.2.2) = (m.1, resR m.2.1, ofIter m.2.2) := by
  obtain ⟨h1, h2⟩ := h
  generalize hk : min n (it.back - it.front) = k
  have hk1 : k ≤ it.back := by omega
  have hk2 : it.front ≤ it.back - k := by omega
  have hk4 : it.back - (it.back - k) = k := by omega
  by_cases hp : GA.IterOwn.panics ((it.slots.drop (it.back - k)).take k) c.bad
  · body_simp [Gen.Body.nthBack, GA.IterOwn.nthBackD, Gen.Iter.nthBackDropLo, Gen.Iter.nthBackDropHi,
      Gen.Iter.nthBackNext, Gen.Iter.nthBackThenNextBack, Gen.Iter.nthBackNextOk, Gen.Iter.nthBackAdvanceBeforeDrop,
      rangeOk, h1, h2, hk, hk1, hk2, hk4, sliceOf, hp, retGive, resR]
  · by_cases hlt : it.front < it.back - k
    · have hb : it.back - k - 1 < it.slots.length := by omega
      have ho : 1 ≤ it.back - k := by omega
      body_simp [Gen.Body.nthBack, GA.IterOwn.nthBackD, Gen.Iter.nthBackDropLo, Gen.Iter.nthBackDropHi,
        Gen.Iter.nthBackNext, Gen.Iter.nthBackThenNextBack, Gen.Iter.nthBackNextOk, Gen.Iter.nthBackAdvanceBeforeDrop,
        rangeOk, h1, h2, hk, hk1, hk2, hk4, sliceOf, hp, retGive, resR, GA.IterOwn.afterNext, Iter.nextBack,
        Gen.Iter.nextBackCond, Gen.Iter.nextBackAdv, Gen.Iter.nextBackAdvOk, Gen.Iter.nextBackRead,
        Gen.Iter.nextBackDecBeforeRead, readSlot, hlt, hb, ho]
    · body_simp [Gen.Body.nthBack, GA.IterOwn.nthBackD, Gen.Iter.nthBackDropLo, Gen.Iter.nthBackDropHi,
        Gen.Iter.nthBackNext, Gen.Iter.nthBackThenNextBack, Gen.Iter.nthBackNextOk, Gen.Iter.nthBackAdvanceBeforeDrop,
        rangeOk, h1, h2, hk, hk1, hk2, hk4, sliceOf, hp, retGive, resR, GA.IterOwn.afterNext, Iter.nextBack,
        Gen.Iter.nextBackCond, hlt]

/-- `Drop for GenericArrayIter` -/
theorem drop_body (it : Iter) (h : Inv it) (c : Ctx) :
    let r := runFn c Gen.Body.dropIter.body Gen.Body.dropIter [] (ofIter it)
    (r.1, r.2.1) = (GA.IterOwn.dropIter it,
      if GA.IterOwn.panics (asSlice it) c.bad then R.panicked else R.ret .unit) := by
  obtain ⟨h1, h2⟩ := h
  by_cases hp : GA.IterOwn.panics ((it.slots.drop it.front).take (it.back - it.front)) c.bad
  · body_simp [Gen.Body.dropIter, GA.IterOwn.dropIter, asSlice, sliceOf, Gen.Iter.sliceLo, Gen.Iter.sliceHi, h1, h2, hp]
  · body_simp [Gen.Body.dropIter, GA.IterOwn.dropIter, asSlice, sliceOf, Gen.Iter.sliceLo, Gen.Iter.sliceHi, h1, h2, hp]

theorem asSlice_body (it : Iter) (h : Inv it) (c : Ctx) :
    runFn c Gen.Body.dropIter.body Gen.Body.asSlice [] (ofIter it)
      = ([], .ret (.slice .self (Gen.Iter.sliceLo it.front it.back) (Gen.Iter.sliceHi it.front it.back)), ofIter it) := by
  obtain ⟨h1, h2⟩ := h
  body_simp [Gen.Body.asSlice, Gen.Iter.sliceLo, Gen.Iter.sliceHi, h1, h2]

theorem asMutSlice_body (it : Iter) (h : Inv it) (c : Ctx) :
    runFn c Gen.Body.dropIter.body Gen.Body.asMutSlice [] (ofIter it)
      = ([], .ret (.slice .self (Gen.Iter.sliceMutLo it.front it.back) (Gen.Iter.sliceMutHi it.front it.back)), ofIter it) := by
  obtain ⟨h1, h2⟩ := h
  body_simp [Gen.Body.asMutSlice, Gen.Iter.sliceMutLo, Gen.Iter.sliceMutHi, h1, h2]

theorem debug_body (it : Iter) (h : Inv it) (c : Ctx) :
    runFn c Gen.Body.dropIter.body Gen.Body.debugFmt [] (ofIter it)
      = ([], outR (Iter.step it .debug).1, ofIter it) := by
  obtain ⟨h1, h2⟩ := h
  body_simp [Gen.Body.debugFmt, Iter.step, sliceOk, asSlice, sliceOf, rangeOk, Gen.Iter.sliceLo, Gen.Iter.sliceHi, h1, h2]

/-- `count(self)`: `len()`, then the iterator (owned by `count`) is dropped -/
theorem count_body (it : Iter) (h : Inv it) (c : Ctx) :
    let r := runFn c Gen.Body.dropIter.body Gen.Body.count [] (ofIter it)
    let m := GA.IterOwn.countD it c.bad
    (r.1, r.2.1) = (m.1, match m.2 with | .item (some k) => R.ret (.nat k) | .panicked => R.panicked | _ => R.ub) := by
  obtain ⟨h1, h2⟩ := h
  by_cases hp : GA.IterOwn.panics ((it.slots.drop it.front).take (it.back - it.front)) c.bad
  · body_simp [Gen.Body.count, Gen.Body.dropIter, GA.IterOwn.countD, GA.IterOwn.dropIter, asSlice, sliceOf,
      Gen.Iter.sliceLo, Gen.Iter.sliceHi, Gen.Iter.len, h1, h2, hp]
  · body_simp [Gen.Body.count, Gen.Body.dropIter, GA.IterOwn.countD, GA.IterOwn.dropIter, asSlice, sliceOf,
      Gen.Iter.sliceLo, Gen.Iter.sliceHi, Gen.Iter.len, h1, h2, hp]

/-! ### Loops: `fold`, `rfold`, `clone` -/

theorem exec_foldS (c : Ctx) (rev : Bool) (sl : X) (body k : S) (env : List V) (st : St) :
    exec c (.foldS rev sl body k) env st =
      match eval c env st sl with
      | some (.slice o lo hi) =>
        match loopOver (loopBody c body env) (if rev then (positions o lo hi).reverse else positions o lo hi) st with
        | (tr, .ret _, st') =>
          let r := exec c k (env ++ [.unit]) st'
          (tr ++ r.1, r.2)
        | r => r
      | _ => ([], .ub, st) := by
  simp only [exec]
  rfl

theorem exec_zipS (c : Ctx) (dst src : X) (body k : S) (env : List V) (st : St) :
    exec c (.zipS dst src body k) env st =
      match eval c env st dst, eval c env st src with
      | some (.slice od dlo dhi), some (.slice os slo shi) =>
        match loopOver (zipBody c body env) (zipPositions od dlo dhi os slo shi) st with
        | (tr, .ret _, st') =>
          let r := exec c k env st'
          (tr ++ r.1, r.2)
        | r => r
      | _, _ => ([], .ub, st) := by
  simp only [exec]
  rfl

theorem exec_done (c : Ctx) (x : X) (env : List V) (st : St) :
    exec c (.done x) env st = match eval c env st x with
      | some v => ([], .ret v, st)
      | none => ([], .ub, st) := by
  first | rfl | (simp only [exec]; rfl)
theorem exec_letv (c : Ctx) (e : X) (k : S) (env : List V) (st : St) :
    exec c (.letv e k) env st = match eval c env st e with
      | some v => exec c k (env ++ [v]) st
      | none => ([], .ub, st) := by
  first | rfl | (simp only [exec]; rfl)
theorem exec_set (c : Ctx) (o : Obj) (f : Fld) (e : X) (k : S) (env : List V) (st : St) :
    exec c (.set o f e k) env st = match natOf (eval c env st e) with
      | some v => exec c k env (st.putObj o ((st.obj o).put f v))
      | none => ([], .ub, st) := by
  first | rfl | (simp only [exec]; rfl)
theorem exec_forget (c : Ctx) (k : S) (env : List V) (st : St) :
    exec c (.forget k) env st = exec c k env { st with forgot := true } := by
  first | rfl | (simp only [exec]; rfl)
theorem exec_newOut (c : Ctx) (moved : Bool) (idx idxb : X) (k : S) (env : List V) (st : St) :
    exec c (.newOut moved idx idxb k) env st =
      match natOf (eval c env st idx), natOf (eval c env st idxb) with
      | some i, some b =>
        exec c k env { st with out := ⟨st.self.slots, i, b, 0, []⟩, hasOut := true, forgot := st.forgot || moved }
      | _, _ => ([], .ub, st) := by
  first | rfl | (simp only [exec]; rfl)
theorem exec_drop (c : Ctx) (sl : X) (k : S) (env : List V) (st : St) :
    exec c (.drop sl k) env st = match eval c env st sl with
      | some (.slice o lo hi) =>
        if GA.Body.panics (idsOf (st.obj o) lo hi) c.bad then (dropEvs (st.obj o) lo hi, .panicked, st)
        else (dropEvs (st.obj o) lo hi ++ (exec c k env st).1, (exec c k env st).2)
      | _ => ([], .ub, st) := by
  first | rfl | (simp only [exec]; rfl)

open Lean.Parser.Tactic in
/-- like `body_simp`, but loops stay folded (`exec_foldS`, `exec_zipS`) -/
macro "body_simp_l" "[" ts:simpLemma,* "]" : tactic =>
  `(tactic| simp [runFn, runDropOn, exec_foldS, exec_zipS, exec_done, exec_letv, exec_set, exec_forget, exec_newOut,
      exec_drop, eval, GA.BodyIter.ofIter, St.obj, St.putObj, O.get, O.put, natOf, boolOf, resolve, idsOf, dropEvs, panics_eq, $ts,*])

/-- the closure calls of a fold over the elements `xs`, first call index `k`:
    events, whether every call returned, number of elements handed out -/
def callsSpec (fpan : Nat → Bool) : List Nat → Nat → List Ev × Bool × Nat
  | [], _ => ([], true, 0)
  | x :: xs, k =>
    if fpan k then ([.give k x, .panic k], false, 1)
    else
      let r := callsSpec fpan xs (k + 1)
      (.give k x :: r.1, r.2.1, r.2.2 + 1)

theorem fold_loop (c : Ctx) (slots : List Nat) (ib : Nat) (e0 e1 : V) (out : O) (ho fg : Bool) :
    ∀ (r i k : Nat), i + r ≤ slots.length → i + r < word →
      loopOver (loopBody c (loopBodyOf Gen.Body.fold.body) [e0, e1]) ((List.range' i r).map (V.slot .self))
          ⟨⟨slots, i, ib, 0, []⟩, out, ho, k, fg, 0, false, {}⟩
        = ((callsSpec c.fpan ((slots.drop i).take r) k).1,
           (if (callsSpec c.fpan ((slots.drop i).take r) k).2.1 then R.ret .unit else R.panicked),
           ⟨⟨slots, i + (callsSpec c.fpan ((slots.drop i).take r) k).2.2, ib, 0, []⟩, out, ho,
             k + (callsSpec c.fpan ((slots.drop i).take r) k).2.2, fg, 0, false, {}⟩) := by
  intro r
  induction r with
  | zero => intro i k _ _; simp [loopOver, callsSpec]
  | succ r ih =>
    intro i k h1 h2
    have hi : i < slots.length := by omega
    have hi1 : i + 1 < word := by omega
    rw [List.range'_succ, List.map_cons, List.drop_eq_getElem_cons hi]
    simp only [List.take_succ_cons, loopOver, callsSpec]
    by_cases hp : c.fpan k
    · simp [loopBody, loopBodyOf, Gen.Body.fold, exec, eval, St.obj, St.putObj, O.get, O.put, natOf, hi, hi1, hp]
    · have := ih (i + 1) (k + 1) (by omega) (by omega)
      simp [loopBody, loopBodyOf, Gen.Body.fold, exec, eval, St.obj, St.putObj, O.get, O.put, natOf, hi, hi1, hp] at this ⊢
      rw [this]
      simp; omega

/-- `fold` / `rfold` as a whole: the closure calls, then — if one of them panicked — the iterator
    (still owned by the method's frame) releases what was not handed out -/
def foldSpec (fpan : Nat → Bool) (xs : List Nat) (k : Nat) : List Ev × Bool :=
  ((callsSpec fpan xs k).1 ++ (if (callsSpec fpan xs k).2.1 then [] else (xs.drop (callsSpec fpan xs k).2.2).map .drop),
    (callsSpec fpan xs k).2.1)

theorem callsSpec_le (fpan : Nat → Bool) : ∀ (xs : List Nat) (k : Nat), (callsSpec fpan xs k).2.2 ≤ xs.length
  | [], _ => by simp [callsSpec]
  | x :: xs, k => by
    unfold callsSpec
    split
    · simp
    · have := callsSpec_le fpan xs (k + 1)
      simp; omega

theorem fold_body (it : Iter) (h : Inv it) (hw : it.slots.length < word) (c : Ctx) (hbad : c.bad = none) :
    let r := runFn c Gen.Body.dropIter.body Gen.Body.fold [] (ofIter it)
    (r.1, r.2.1) = ((foldSpec c.fpan (abs it) 0).1,
      if (foldSpec c.fpan (abs it) 0).2 then R.ret .unit else R.panicked) := by
  obtain ⟨h1, h2⟩ := h
  have hl := fold_loop c it.slots it.back (.nat it.back) (.slice .self it.front it.back) ⟨[], 0, 0, 0, []⟩ false false
    (it.back - it.front) it.front 0 (by omega) (by omega)
  simp only [loopBodyOf, Gen.Body.fold] at hl
  have hle := callsSpec_le c.fpan ((it.slots.drop it.front).take (it.back - it.front)) 0
  have hlen : ((it.slots.drop it.front).take (it.back - it.front)).length = it.back - it.front := by
    simp; omega
  rw [hlen] at hle
  generalize hsp : callsSpec c.fpan ((it.slots.drop it.front).take (it.back - it.front)) 0 = sp at hl hle
  obtain ⟨ev, ok, cnt⟩ := sp
  simp only at hle
  cases ok
  · have e1 : it.front + cnt ≤ it.back := by omega
    have e2 : it.back - (it.front + cnt) = it.back - it.front - cnt := by omega
    body_simp_l [Gen.Body.fold, Gen.Body.dropIter, positions, h1, h2, hl, foldSpec, abs, sliceOf, hsp, hbad, e1, e2,
      GA.IterOwn.panics, List.drop_take]
  · body_simp_l [Gen.Body.fold, Gen.Body.dropIter, positions, h1, h2, hl, foldSpec, abs, sliceOf, hsp, hbad]

theorem take_succ_drop (l : List Nat) (i r : Nat) (h : i + r < l.length) :
    (l.drop i).take (r + 1) = (l.drop i).take r ++ [l[i + r]] := by
  rw [List.take_add_one, List.getElem?_drop, List.getElem?_eq_getElem h]
  rfl

theorem rfold_loop (c : Ctx) (slots : List Nat) (fr : Nat) (e0 e1 : V) (out : O) (ho fg : Bool) (i : Nat) :
    ∀ (r k : Nat), i + r ≤ slots.length →
      loopOver (loopBody c (loopBodyOf Gen.Body.rfold.body) [e0, e1]) (((List.range' i r).map (V.slot .self)).reverse)
          ⟨⟨slots, fr, i + r, 0, []⟩, out, ho, k, fg, 0, false, {}⟩
        = ((callsSpec c.fpan ((slots.drop i).take r).reverse k).1,
           (if (callsSpec c.fpan ((slots.drop i).take r).reverse k).2.1 then R.ret .unit else R.panicked),
           ⟨⟨slots, fr, i + r - (callsSpec c.fpan ((slots.drop i).take r).reverse k).2.2, 0, []⟩, out, ho,
             k + (callsSpec c.fpan ((slots.drop i).take r).reverse k).2.2, fg, 0, false, {}⟩) := by
  intro r
  induction r with
  | zero => intro k _; simp [loopOver, callsSpec]
  | succ r ih =>
    intro k h1
    have hi : i + r < slots.length := by omega
    have e1' : i + (r + 1) - 1 = i + r := by omega
    have e2 : 1 ≤ i + (r + 1) := by omega
    rw [List.range'_concat, List.map_append, List.reverse_append, take_succ_drop slots i r hi, List.reverse_append]
    simp only [List.map_cons, List.map_nil, List.reverse_cons, List.reverse_nil, List.nil_append, List.cons_append,
      loopOver, callsSpec, Nat.mul_one]
    by_cases hp : c.fpan k
    · simp [loopBody, loopBodyOf, Gen.Body.rfold, exec, eval, St.obj, St.putObj, O.get, O.put, natOf, hi, hp, e1', e2]
    · have := ih (k + 1) (by omega)
      simp [loopBody, loopBodyOf, Gen.Body.rfold, exec, eval, St.obj, St.putObj, O.get, O.put, natOf, hi, hp, e1', e2] at this ⊢
      rw [this]
      simp; omega

/-- `rfold`: the calls run over the reversed live range; what a panic leaves is released by the
    iterator's `Drop` in storage order -/
def rfoldSpec (fpan : Nat → Bool) (xs : List Nat) (k : Nat) : List Ev × Bool :=
  ((callsSpec fpan xs k).1 ++
      (if (callsSpec fpan xs k).2.1 then [] else ((xs.drop (callsSpec fpan xs k).2.2).reverse).map .drop),
    (callsSpec fpan xs k).2.1)

theorem rfold_body (it : Iter) (h : Inv it) (c : Ctx) (hbad : c.bad = none) :
    let r := runFn c Gen.Body.dropIter.body Gen.Body.rfold [] (ofIter it)
    (r.1, r.2.1) = ((rfoldSpec c.fpan (abs it).reverse 0).1,
      if (rfoldSpec c.fpan (abs it).reverse 0).2 then R.ret .unit else R.panicked) := by
  obtain ⟨h1, h2⟩ := h
  have hl := rfold_loop c it.slots it.front (.nat it.front) (.slice .self it.front it.back) ⟨[], 0, 0, 0, []⟩ false false
    it.front (it.back - it.front) 0 (by omega)
  have e0 : it.front + (it.back - it.front) = it.back := by omega
  rw [e0] at hl
  simp only [loopBodyOf, Gen.Body.rfold] at hl
  have hle := callsSpec_le c.fpan ((it.slots.drop it.front).take (it.back - it.front)).reverse 0
  have hlen : ((it.slots.drop it.front).take (it.back - it.front)).reverse.length = it.back - it.front := by
    simp; omega
  rw [hlen] at hle
  generalize hsp : callsSpec c.fpan ((it.slots.drop it.front).take (it.back - it.front)).reverse 0 = sp at hl hle
  obtain ⟨ev, ok, cnt⟩ := sp
  simp only at hle
  cases ok
  · have e1 : it.front ≤ it.back - cnt := by omega
    have e2 : it.back - cnt ≤ it.slots.length := by omega
    have e3 : min (it.back - it.front - cnt) (it.back - it.front) = it.back - cnt - it.front := by omega
    have e4 : min (it.back - it.front) (it.slots.length - it.front) = it.back - it.front := by omega
    body_simp_l [Gen.Body.rfold, Gen.Body.dropIter, positions, h1, h2, hl, rfoldSpec, abs, sliceOf, hsp, hbad, e1, e2,
      GA.IterOwn.panics, List.drop_reverse, List.take_take, e3, e4]
  · body_simp_l [Gen.Body.rfold, Gen.Body.dropIter, positions, h1, h2, hl, rfoldSpec, abs, sliceOf, hsp, hbad]

/-! #### `Clone::clone` -/

def pairsFrom (j i : Nat) : Nat → List V
  | 0 => []
  | r + 1 => .pair (.slot .out j) (.slot .self i) :: pairsFrom (j + 1) (i + 1) r

theorem zip_positions_eq : ∀ (m n j i : Nat),
    (List.zip ((List.range' j m).map (V.slot .out)) ((List.range' i n).map (V.slot .self))).map
        (fun p => V.pair p.1 p.2) = pairsFrom j i (min m n)
  | 0, n, j, i => by simp [pairsFrom]
  | m + 1, 0, j, i => by simp [pairsFrom]
  | m + 1, n + 1, j, i => by
    have := zip_positions_eq m n (j + 1) (i + 1)
    simp only [List.range'_succ, List.map_cons, List.zip_cons_cons, Nat.succ_min_succ, pairsFrom]
    simpa using this

/-- the `Clone::clone` calls over the elements `xs`: events, whether all returned, the clones made -/
def cloneCalls (cl : Nat → Option Nat) : List Nat → Nat → List Ev × Bool × List Nat
  | [], _ => ([], true, [])
  | x :: xs, k =>
    match cl k with
    | none => ([.lend k x, .panic k], false, [])
    | some y =>
      let r := cloneCalls cl xs (k + 1)
      (.lend k x :: .take k y :: r.1, r.2.1, y :: r.2.2)

def setMany (l : List Nat) (j : Nat) : List Nat → List Nat
  | [] => l
  | y :: ys => setMany (l.set j y) (j + 1) ys

theorem setMany_length (ys : List Nat) : ∀ (l : List Nat) (j : Nat), (setMany l j ys).length = l.length := by
  induction ys with
  | nil => intro l j; rfl
  | cons y ys ih => intro l j; simp [setMany, ih]

theorem setMany_eq (ys : List Nat) : ∀ (l : List Nat) (j : Nat), j + ys.length ≤ l.length →
    setMany l j ys = l.take j ++ ys ++ l.drop (j + ys.length) := by
  induction ys with
  | nil => intro l j _; simp [setMany]
  | cons y ys ih =>
    intro l j h
    have hj : j < l.length := by simp at h; omega
    have h' : j + 1 + ys.length ≤ (l.set j y).length := by simp at h ⊢; omega
    rw [setMany, ih (l.set j y) (j + 1) h', List.take_set, List.drop_set_of_lt (by omega)]
    have e : (l.take (j + 1)).set j y = l.take j ++ [y] := by
      have hl1 : j < (l.take (j + 1)).length := by simp; omega
      have hm : min j (j + 1) = j := by omega
      rw [List.set_eq_take_append_cons_drop, if_pos hl1, List.take_take, hm, List.drop_take]
      simp
    rw [e]
    simp [Nat.add_assoc, Nat.add_comm 1]

theorem clone_loop (c : Ctx) (self : O) (fg : Bool) :
    ∀ (r j i k : Nat) (outSlots : List Nat), i + r ≤ self.slots.length → j + r ≤ outSlots.length → j + r < word →
      loopOver (zipBody c (loopBodyOf Gen.Body.clone.body) []) (pairsFrom j i r)
          ⟨self, ⟨outSlots, 0, j, 0, []⟩, true, k, fg, 0, false, {}⟩
        = ((cloneCalls c.cl ((self.slots.drop i).take r) k).1,
           (if (cloneCalls c.cl ((self.slots.drop i).take r) k).2.1 then R.ret .unit else R.panicked),
           ⟨self, ⟨setMany outSlots j (cloneCalls c.cl ((self.slots.drop i).take r) k).2.2, 0,
               j + (cloneCalls c.cl ((self.slots.drop i).take r) k).2.2.length, 0, []⟩, true,
             k + (cloneCalls c.cl ((self.slots.drop i).take r) k).2.2.length
               + (if (cloneCalls c.cl ((self.slots.drop i).take r) k).2.1 then 0 else 1), fg, 0, false, {}⟩) := by
  intro r
  induction r with
  | zero => intro j i k o _ _ _; simp [pairsFrom, loopOver, cloneCalls, setMany]
  | succ r ih =>
    intro j i k o h1 h2 h3
    have hi : i < self.slots.length := by omega
    have hj : j < o.length := by omega
    have hj1 : j + 1 < word := by omega
    rw [List.drop_eq_getElem_cons hi]
    simp only [List.take_succ_cons, pairsFrom, loopOver, cloneCalls]
    cases hc : c.cl k with
    | none =>
      simp [zipBody, loopBodyOf, Gen.Body.clone, exec, eval, St.obj, St.putObj, O.get, O.put, natOf, hi, hj, hj1, hc, setMany]
    | some y =>
      have := ih (j + 1) (i + 1) (k + 1) (o.set j y) (by omega) (by simp; omega) (by omega)
      simp [zipBody, loopBodyOf, Gen.Body.clone, exec, eval, St.obj, St.putObj, O.get, O.put, natOf, hi, hj, hj1, hc, setMany] at this ⊢
      rw [this]
      simp; omega

/-- `clone` as a whole: the calls, then — if one panicked — the partially built iterator (a local
    of `clone`) releases the clones made so far -/
def cloneSpec (cl : Nat → Option Nat) (xs : List Nat) : List Ev × Option (List Nat) :=
  ((cloneCalls cl xs 0).1 ++ (if (cloneCalls cl xs 0).2.1 then [] else (cloneCalls cl xs 0).2.2.map .drop),
    if (cloneCalls cl xs 0).2.1 then some (cloneCalls cl xs 0).2.2 else none)

theorem cloneCalls_len (cl : Nat → Option Nat) : ∀ (xs : List Nat) (k : Nat), (cloneCalls cl xs k).2.2.length ≤ xs.length
  | [], _ => by simp [cloneCalls]
  | x :: xs, k => by
    unfold cloneCalls
    split
    · simp
    · have := cloneCalls_len cl xs (k + 1)
      simp; omega

theorem clone_body (it : Iter) (h : Inv it) (hw : it.slots.length < word) (c : Ctx) (hbad : c.bad = none) :
    let r := runFn c Gen.Body.dropIter.body Gen.Body.clone [] (ofIter it)
    (r.1, r.2.1) = ((cloneSpec c.cl (abs it)).1,
        match (cloneSpec c.cl (abs it)).2 with | some _ => R.ret .obj | none => R.panicked)
    ∧ (∀ made, (cloneSpec c.cl (abs it)).2 = some made →
        r.2.2.out = ⟨setMany it.slots 0 made, 0, made.length, 0, []⟩ ∧ toIter r.2.2 = it) := by
  obtain ⟨h1, h2⟩ := h
  have hz := zip_positions_eq it.slots.length (it.back - it.front) 0 it.front
  have hmin : min it.slots.length (it.back - it.front) = it.back - it.front := by omega
  rw [hmin] at hz
  have hl := clone_loop c ⟨it.slots, it.front, it.back, 0, []⟩ false (it.back - it.front) 0 it.front 0 it.slots
    (by simp; omega) (by omega) (by omega)
  simp only [loopBodyOf, Gen.Body.clone] at hl
  have hle := cloneCalls_len c.cl ((it.slots.drop it.front).take (it.back - it.front)) 0
  have hlen : ((it.slots.drop it.front).take (it.back - it.front)).length = it.back - it.front := by
    simp; omega
  rw [hlen] at hle
  generalize hsp : cloneCalls c.cl ((it.slots.drop it.front).take (it.back - it.front)) 0 = sp at hl hle
  obtain ⟨ev, ok, made⟩ := sp
  simp only at hle
  cases ok
  · have e1 : made.length ≤ it.slots.length := by omega
    have e2 : (setMany it.slots 0 made).length = it.slots.length := setMany_length made it.slots 0
    body_simp_l [Gen.Body.clone, Gen.Body.dropIter, zipPositions, positions, h1, h2, hz, hl, cloneSpec, abs, sliceOf,
      hsp, hbad, GA.IterOwn.panics, e1, e2]
    rw [setMany_eq made it.slots 0 (by omega)]
    simp
  · body_simp_l [Gen.Body.clone, Gen.Body.dropIter, zipPositions, positions, h1, h2, hz, hl, cloneSpec, abs, sliceOf,
      hsp, hbad, GA.BodyIter.toIter]

/-- `last(self)`: `next_back()`, then the iterator (owned by `last`) is dropped -/
theorem last_body (it : Iter) (h : Inv it) (c : Ctx) :
    let r := runFn c Gen.Body.dropIter.body Gen.Body.last [] (ofIter it)
    let m := GA.IterOwn.lastD it c.bad
    (retGive r.2.1 ++ r.1, r.2.1) = (m.1, resR m.2) := by
  obtain ⟨h1, h2⟩ := h
  by_cases hlt : it.front < it.back
  · have hb : it.back - 1 < it.slots.length := by omega
    have ho : 1 ≤ it.back := by omega
    have e1 : it.front ≤ it.back - 1 := by omega
    have e2 : it.back - 1 ≤ it.slots.length := by omega
    by_cases hp : GA.IterOwn.panics ((it.slots.drop it.front).take (it.back - 1 - it.front)) c.bad
    · body_simp [Gen.Body.last, Gen.Body.dropIter, GA.IterOwn.lastD, GA.IterOwn.dropIter, GA.IterOwn.afterNext,
        Iter.nextBack, Gen.Iter.nextBackCond, Gen.Iter.nextBackAdv, Gen.Iter.nextBackAdvOk, Gen.Iter.nextBackRead,
        Gen.Iter.nextBackDecBeforeRead, readSlot, asSlice, sliceOf, Gen.Iter.sliceLo, Gen.Iter.sliceHi, retGive, resR,
        hlt, hb, ho, e1, e2, hp]
    · body_simp [Gen.Body.last, Gen.Body.dropIter, GA.IterOwn.lastD, GA.IterOwn.dropIter, GA.IterOwn.afterNext,
        Iter.nextBack, Gen.Iter.nextBackCond, Gen.Iter.nextBackAdv, Gen.Iter.nextBackAdvOk, Gen.Iter.nextBackRead,
        Gen.Iter.nextBackDecBeforeRead, readSlot, asSlice, sliceOf, Gen.Iter.sliceLo, Gen.Iter.sliceHi, retGive, resR,
        hlt, hb, ho, e1, e2, hp]
  · have e0 : it.front = it.back := by omega
    by_cases hp : GA.IterOwn.panics ((it.slots.drop it.front).take (it.back - it.front)) c.bad
    · body_simp [Gen.Body.last, Gen.Body.dropIter, GA.IterOwn.lastD, GA.IterOwn.dropIter, GA.IterOwn.afterNext,
        Iter.nextBack, Gen.Iter.nextBackCond, asSlice, sliceOf, Gen.Iter.sliceLo, Gen.Iter.sliceHi, retGive, resR,
        hlt, h1, h2, hp]
    · body_simp [Gen.Body.last, Gen.Body.dropIter, GA.IterOwn.lastD, GA.IterOwn.dropIter, GA.IterOwn.afterNext,
        Iter.nextBack, Gen.Iter.nextBackCond, asSlice, sliceOf, Gen.Iter.sliceLo, Gen.Iter.sliceHi, retGive, resR,
        hlt, h1, h2, hp]

/-- `into_iter`: the array moves into a fresh iterator with the whole range live -/
theorem intoIter_body (l : List Nat) (c : Ctx) (hn : c.n = l.length) :
    let r := runFn c Gen.Body.dropIter.body Gen.Body.intoIter []
      { self := ⟨l, 0, 0, 0, []⟩, out := ⟨[], 0, 0, 0, []⟩, hasOut := false, calls := 0, forgot := false, polls := 0, outForgot := false }
    (r.1, r.2.1, toIter { r.2.2 with self := r.2.2.out }) = ([], R.ret .obj, Iter.ofList l) := by
  body_simp [Gen.Body.intoIter, GA.BodyIter.toIter, Iter.ofList, Gen.Iter.initFront, Gen.Iter.initBack, hn]

/-! ### `src/internal.rs`: the three drop guards, `is_full`, `finish` -/

def ofBuilder (slots : List Nat) (pos : Nat) : St :=
  { self := ⟨slots, 0, 0, pos, []⟩, out := ⟨[], 0, 0, 0, []⟩, hasOut := false, calls := 0, forgot := false, polls := 0, outForgot := false }

/-- `Drop for IntrusiveArrayBuilder` releases exactly `array[..position]` -/
theorem intrusiveDrop_body (slots : List Nat) (pos : Nat) (h : pos ≤ slots.length) (c : Ctx) (hb : c.bad = none) :
    let r := runFn c Gen.Body.intrusiveDrop.body Gen.Body.intrusiveDrop [] (ofBuilder slots pos)
    (r.1, r.2.1) = ((slots.take pos).map .drop, R.ret .unit) := by
  body_simp [Gen.Body.intrusiveDrop, ofBuilder, h, hb, GA.IterOwn.panics]

theorem builderDrop_body (slots : List Nat) (pos : Nat) (h : pos ≤ slots.length) (c : Ctx) (hb : c.bad = none) :
    let r := runFn c Gen.Body.builderDrop.body Gen.Body.builderDrop [] (ofBuilder slots pos)
    (r.1, r.2.1) = ((slots.take pos).map .drop, R.ret .unit) := by
  body_simp [Gen.Body.builderDrop, ofBuilder, h, hb, GA.IterOwn.panics]

/-- `Drop for ArrayConsumer` releases exactly `array[position..]` (`Consumer.dropEv` of the ownership model) -/
theorem consumerDrop_body (slots : List Nat) (pos idx : Nat) (h : pos ≤ slots.length) (c : Ctx) (hb : c.bad = none) :
    let r := runFn c Gen.Body.consumerDrop.body Gen.Body.consumerDrop [] (ofBuilder slots pos)
    (r.1, r.2.1) = ((⟨slots, idx, pos⟩ : Consumer).dropEv, R.ret .unit) := by
  body_simp [Gen.Body.consumerDrop, ofBuilder, h, hb, GA.IterOwn.panics, Consumer.dropEv]
  apply List.take_of_length_le
  simp

theorem isFull_body (slots : List Nat) (pos : Nat) (c : Ctx) :
    (runFn c Gen.Body.intrusiveDrop.body Gen.Body.intrusiveIsFull [] (ofBuilder slots pos)).2.1
        = R.ret (.bool (decide (pos = c.n)))
    ∧ (runFn c Gen.Body.builderDrop.body Gen.Body.builderIsFull [] (ofBuilder slots pos)).2.1
        = R.ret (.bool (decide (pos = c.n))) := by
  constructor <;> body_simp [Gen.Body.intrusiveIsFull, Gen.Body.builderIsFull, ofBuilder]

/-- `finish(self)` forgets the builder: nothing is dropped, whatever `position` is -/
theorem finish_body (slots : List Nat) (pos : Nat) (c : Ctx) :
    let r := runFn c Gen.Body.intrusiveDrop.body Gen.Body.intrusiveFinish [] (ofBuilder slots pos)
    (r.1, r.2.1) = ([], R.ret .unit) := by
  body_simp [Gen.Body.intrusiveFinish, ofBuilder]

/-! ### Value view (no panics): what the C06 refinement needs -/

theorem nth_value_body (it : Iter) (n : Nat) (h : Inv it) (hw : it.slots.length < word) (c : Ctx) (hb : c.bad = none) :
    let r := runFn c Gen.Body.dropIter.body Gen.Body.nth [.nat n] (ofIter it)
    (r.2.1, r.2.2) = (outR (Iter.nth it n).1, ofIter (Iter.nth it n).2) := by
  obtain ⟨h1, h2⟩ := h
  generalize hk : min n (it.back - it.front) = k
  have hk1 : it.front + k ≤ it.back := by omega
  have hk2 : it.front + k ≤ it.slots.length := by omega
  have hk3 : it.front + k < word := by omega
  by_cases hlt : it.front + k < it.back
  · have hb' : it.front + k < it.slots.length := by omega
    have ho : it.front + k + 1 < word := by omega
    body_simp [Gen.Body.nth, Iter.nth, Gen.Iter.nthDropLo, Gen.Iter.nthDropHi, Gen.Iter.nthNext,
      Gen.Iter.nthThenNext, Gen.Iter.nthNextOk, rangeOk, h1, hk, hk1, hk2, hk3, hb, GA.IterOwn.panics,
      Iter.next, Gen.Iter.nextCond, Gen.Iter.nextAdv, Gen.Iter.nextRead, Gen.Iter.nextReadBeforeAdv, readSlot, hlt, hb', ho]
  · body_simp [Gen.Body.nth, Iter.nth, Gen.Iter.nthDropLo, Gen.Iter.nthDropHi, Gen.Iter.nthNext,
      Gen.Iter.nthThenNext, Gen.Iter.nthNextOk, rangeOk, h1, hk, hk1, hk2, hk3, hb, GA.IterOwn.panics,
      Iter.next, Gen.Iter.nextCond, hlt]

theorem nthBack_value_body (it : Iter) (n : Nat) (h : Inv it) (c : Ctx) (hb : c.bad = none) :
    let r := runFn c Gen.Body.dropIter.body Gen.Body.nthBack [.nat n] (ofIter it)
    (r.2.1, r.2.2) = (outR (Iter.nthBack it n).1, ofIter (Iter.nthBack it n).2) := by
  obtain ⟨h1, h2⟩ := h
  generalize hk : min n (it.back - it.front) = k
  have hk1 : k ≤ it.back := by omega
  have hk2 : it.front ≤ it.back - k := by omega
  have hk4 : it.back - (it.back - k) = k := by omega
  by_cases hlt : it.front < it.back - k
  · have hb' : it.back - k - 1 < it.slots.length := by omega
    have ho : 1 ≤ it.back - k := by omega
    body_simp [Gen.Body.nthBack, Iter.nthBack, Gen.Iter.nthBackDropLo, Gen.Iter.nthBackDropHi,
      Gen.Iter.nthBackNext, Gen.Iter.nthBackThenNextBack, Gen.Iter.nthBackNextOk, rangeOk, h1, h2, hk, hk1, hk2, hk4,
      hb, GA.IterOwn.panics, Iter.nextBack, Gen.Iter.nextBackCond, Gen.Iter.nextBackAdv, Gen.Iter.nextBackAdvOk,
      Gen.Iter.nextBackRead, Gen.Iter.nextBackDecBeforeRead, readSlot, hlt, hb', ho]
  · body_simp [Gen.Body.nthBack, Iter.nthBack, Gen.Iter.nthBackDropLo, Gen.Iter.nthBackDropHi,
      Gen.Iter.nthBackNext, Gen.Iter.nthBackThenNextBack, Gen.Iter.nthBackNextOk, rangeOk, h1, h2, hk, hk1, hk2, hk4,
      hb, GA.IterOwn.panics, Iter.nextBack, Gen.Iter.nextBackCond, hlt]

theorem inR_outR (o : IOut) : GA.BodyIter.inR (outR o) = o := by
  cases o with
  | item x => cases x <;> rfl
  | hint lo hi => cases hi <;> rfl
  | _ => rfl

/-- with closures that never panic, the calls hand out exactly the elements, in order -/
theorem callsSpec_quiet : ∀ (xs : List Nat) (k : Nat),
    gives (callsSpec (fun _ => false) xs k).1 = xs ∧ (callsSpec (fun _ => false) xs k).2.1 = true
  | [], _ => by simp [callsSpec, gives]
  | x :: xs, k => by
    have := callsSpec_quiet xs (k + 1)
    simp [callsSpec, gives, this]

/-- a `Clone` that copies the value it is given reproduces the remaining elements -/
theorem cloneCalls_copy (l : List Nat) : ∀ (xs : List Nat) (j : Nat), l.drop j = xs →
    (cloneCalls (fun k => l[k]?) xs j).2 = (true, xs)
  | [], _, _ => by simp [cloneCalls]
  | x :: xs, j, h => by
    have hj : j < l.length := by
      apply Classical.byContradiction; intro hn
      rw [List.drop_eq_nil_of_le (by omega)] at h; cases h
    have hx : l[j]? = some x := by
      rw [List.drop_eq_getElem_cons hj] at h
      rw [List.getElem?_eq_getElem hj]; congr 1; exact (List.cons.inj h).1
    have ht : l.drop (j + 1) = xs := by
      rw [List.drop_eq_getElem_cons hj] at h; exact (List.cons.inj h).2
    have := cloneCalls_copy l xs (j + 1) ht
    simp only [cloneCalls, hx]
    rw [Prod.ext_iff] at this
    simp [this.1, this.2]

end GA.Bridge.Body
