import GA.Gen.AllocBodies
/-!
Every function of `src/impl_alloc.rs` except boxed `generate` (which is translated whole, `GA.Gen.Body`) is a short
sequence of `Vec` / `Box` calls that `GA.Model.Heap` describes by hand.  This obligation says the regenerated bodies
are, token for token, the ones the model was written against: `try_boxed_from_iter` reserves with
`Vec::with_capacity(N::USIZE)`, fills with `take(N::USIZE)`, tests `v.len() != N::USIZE` and probes once;
`TryFrom<Vec<T>>` moves element by element through the builder (no block is re-typed); `try_from_boxed_slice` checks
the length before `Box::into_raw`; and so on.  Any edit of these bodies breaks it and widens the search.
-/
namespace GA.Bridge.AllocBodies
open GA.Gen.AllocBodies

theorem bodies_are_the_modelled_ones : bodies = [
  ("impl TryFrom<Vec<T>>forGenericArray<T,N>::try_from", "ifv.len()!=N::USIZE{returnErr(crate::LengthError);}unsafe{letmutdestination=GenericArray::uninit();letmutbuilder=IntrusiveArrayBuilder::new(&mutdestination);builder.extend(v.into_iter());Ok({builder.finish();IntrusiveArrayBuilder::array_assume_init(destination)})}"),
  ("impl GenericArray<T,N>::into_boxed_slice", "unsafe{Box::from_raw(core::ptr::slice_from_raw_parts_mut(Box::into_raw(self)as*mutT,N::USIZE,))}"),
  ("impl GenericArray<T,N>::into_vec", "Vec::from(self.into_boxed_slice())"),
  ("impl GenericArray<T,N>::try_from_boxed_slice", "ifslice.len()!=N::USIZE{returnErr(LengthError);}Ok(unsafe{Box::from_raw(Box::into_raw(slice)as*mut_)})"),
  ("impl GenericArray<T,N>::try_from_vec", "Self::try_from_boxed_slice(vec.into_boxed_slice())"),
  ("impl GenericArray<T,N>::default_boxed", "Box::<GenericArray<T,N>>::generate(|_|T::default())"),
  ("impl GenericArray<T,N>::try_boxed_from_iter", "letmutiter=iter.into_iter();matchiter.size_hint(){(n,_)ifn>N::USIZE=>returnErr(LengthError),(_,Some(n))ifn<N::USIZE=>returnErr(LengthError),_=>{}}letmutv=Vec::with_capacity(N::USIZE);v.extend((&mutiter).take(N::USIZE));ifv.len()!=N::USIZE||iter.next().is_some(){returnErr(LengthError);}Ok(GenericArray::try_from_vec(v).unwrap())"),
  ("impl TryFrom<Box<[T]>>forGenericArray<T,N>::try_from", "Vec::from(value).try_into()"),
  ("impl From<GenericArray<T,N>>forBox<[T]>::from", "Box::new(value).into_boxed_slice()"),
  ("impl From<GenericArray<T,N>>forVec<T>::from", "Box::<[T]>::from(value).into()"),
  ("impl IntoIteratorforBox<GenericArray<T,N>>::into_iter", "GenericArray::into_vec(self).into_iter()"),
  ("impl FromIterator<T>forBox<GenericArray<T,N>>::from_iter", "matchGenericArray::try_boxed_from_iter(iter){Ok(res)=>res,Err(_)=>crate::from_iter_length_fail(N::USIZE),}"),
  ("impl DropforDeallocOnDrop::drop", "ifself.layout.size()!=0{unsafe{alloc::alloc::dealloc(self.ptr,self.layout)}}")] := by rfl

end GA.Bridge.AllocBodies
