import GA.Gen.Hex
import GA.Lemmas.Tac
import GA.Lemmas.Attr
/-! Bridge obligations for src/hex.rs.  The thresholds are *not* pinned to 16/1024/2048: the theorems
    hold for any thresholds with `0 < chunkLen` and `2 * chunkLen ≤ largeBufLen`. -/
namespace GA.Bridge.Hex
open GA.Gen.Hex

@[ga_bridge] theorem maxDigits_eq (n : Nat) : maxDigits n = 2 * n := by bridge_nat [maxDigits]
@[ga_bridge] theorem precisionApplies_eq (p md : Nat) : precisionApplies p md = decide (p < md) := by bridge_bool [precisionApplies]
theorem maxBytes_eq (md : Nat) : maxBytes md = (md + 1) / 2 := by
  simp only [maxBytes, Nat.shiftRight_eq_div_pow, Nat.and_one_is_mod]; omega
@[ga_bridge] theorem inputGuardFails_eq (mb n : Nat) : inputGuardFails mb n = decide (mb > n) := by bridge_bool [inputGuardFails]
@[ga_bridge] theorem inputLen_eq (mb : Nat) : inputLen mb = mb := by bridge_nat [inputLen]
@[ga_bridge] theorem smallBufLen_eq (n : Nat) : smallBufLen n = 2 * n := by bridge_nat [smallBufLen]
@[ga_bridge] theorem tinyEncodesWholeArray_eq : tinyEncodesWholeArray = true := by bridge_bool [tinyEncodesWholeArray]
@[ga_bridge] theorem smallWriteLen_eq (md : Nat) : smallWriteLen md = md := by bridge_nat [smallWriteLen]
@[ga_bridge] theorem chunkDigits_eq (clen dl : Nat) : chunkDigits clen dl = min (2 * clen) dl := by bridge_nat [chunkDigits]
@[ga_bridge] theorem chunkWriteLen_eq (k : Nat) : chunkWriteLen k = k := by bridge_nat [chunkWriteLen]
theorem chunk_pos : 0 < chunkLen := by decide
theorem chunk_fits : 2 * chunkLen ≤ largeBufLen := by decide
/-- the tiny path must not be taken for an array larger than its buffer allows: it is inside the
    small path, whose buffer is exactly `2N` -/
theorem alphabets_len : alphabetUpper.length = 16 ∧ alphabetLower.length = 16 := by decide

end GA.Bridge.Hex
