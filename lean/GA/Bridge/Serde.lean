import GA.Gen.Serde
import GA.Lemmas.Tac
import GA.Lemmas.Attr
namespace GA.Bridge.Serde
open GA.Gen.Serde
@[ga_bridge] theorem serTupleLen_eq (n : Nat) : serTupleLen n = n := by bridge_nat [serTupleLen]
@[ga_bridge] theorem serElementsInOrder_eq : serElementsInOrder = true := by bridge_bool [serElementsInOrder]
@[ga_bridge] theorem hintReject_eq (h n : Nat) : hintReject h n = decide (h ≠ n) := by bridge_bool [hintReject]
@[ga_bridge] theorem writeBeforeCount_eq : writeBeforeCount = true := by bridge_bool [writeBeforeCount]
@[ga_bridge] theorem elementErrorPropagates_eq : elementErrorPropagates = true := by bridge_bool [elementErrorPropagates]
@[ga_bridge] theorem isFull_eq (pos n : Nat) : isFull pos n = decide (pos = n) := by bridge_bool [isFull]
@[ga_bridge] theorem probeSkippedWhenHintZero_eq : probeSkippedWhenHintZero = true := by bridge_bool [probeSkippedWhenHintZero]
@[ga_bridge] theorem probesForSurplus_eq : probesForSurplus = true := by bridge_bool [probesForSurplus]
@[ga_bridge] theorem finishAfterProbe_eq : finishAfterProbe = true := by bridge_bool [finishAfterProbe]
@[ga_bridge] theorem deTupleLen_eq (n : Nat) : deTupleLen n = n := by bridge_nat [deTupleLen]
end GA.Bridge.Serde
