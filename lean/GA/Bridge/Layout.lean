import GA.Gen.Layout
import GA.Lemmas.Tac
import GA.Lemmas.Attr
/-!
Bridge obligations for the storage descriptors in `src/lib.rs`.  They do not pin the field
*order*: the layout theorem is proved for the whole class of `repr(C)` nodes that consist of two
children, the right number of elements and align-1 zero-sized fields.
-/
namespace GA.Bridge.Layout
open GA.Gen.Layout GA.Layout

theorem evenRepr_eq : evenRepr = .c := by decide
theorem oddRepr_eq : oddRepr = .c := by decide
theorem even_children : evenFields.count .child = 2 := by decide
theorem even_elems : evenFields.count .elem = 0 := by decide
theorem odd_children : oddFields.count .child = 2 := by decide
theorem odd_elems : oddFields.count .elem = 1 := by decide
theorem termStorage_eq : termStorage = .array0 := by decide
theorem b0Node_eq : b0Node = .even := by decide
theorem b1Node_eq : b1Node = .odd := by decide
theorem wrapperRepr_eq : wrapperRepr = .transparent := by decide
theorem wrapperSingle_eq : wrapperSingleStorageField = true := by decide
@[ga_bridge] theorem asSliceLen_eq (n : Nat) : asSliceLen n = n := by bridge_nat [asSliceLen]
@[ga_bridge] theorem asMutSliceLen_eq (n : Nat) : asMutSliceLen n = n := by bridge_nat [asMutSliceLen]
@[ga_bridge] theorem asSliceBaseIsSelf_eq : asSliceBaseIsSelf = true := by bridge_bool [asSliceBaseIsSelf]
@[ga_bridge] theorem asMutSliceBaseIsSelf_eq : asMutSliceBaseIsSelf = true := by bridge_bool [asMutSliceBaseIsSelf]

end GA.Bridge.Layout
