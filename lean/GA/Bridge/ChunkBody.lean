import GA.Gen.SeqBody
/-!
# Whole-body tie: `chunks_from_slice(_mut)` and `slice_from_chunks(_mut)` of src/lib.rs (C10)

`len` = length of the argument slice, passed as `K`.
-/
namespace GA.Bridge.SeqBody
open GA.MemBody GA.Gen

/-- `chunks_from_slice` for `N > 0`: the chunk view covers `[0, (len / N) · N)`, the remainder `[(len / N) · N, len)`;
    both are made from pointers to the argument slice and lie inside it -/
theorem chunksFromSlice_body (n len i : Nat) (hn : 0 < n) :
    runViews false SeqBody.chunksFromSlice ⟨n, len, i⟩ =
      .views [⟨0, len / n * n, false⟩, ⟨len / n * n, len - len / n * n, false⟩] := by
  have h0 : ¬ n = 0 := by omega
  have h1 : len / n * n ≤ len := Nat.div_mul_le_self len n
  have h2 : len / n * n + (len - len / n * n) ≤ len := by omega
  simp [runViews, SeqBody.chunksFromSlice, vexec, vstep, lookupP, lookupV, lookupVs, LX.eval, BX.eval, noAlias, h0, h1, h2]

/-- `chunks_from_slice` for `N = 0`: two empty views for an empty slice, the assertion fails otherwise -/
theorem chunksFromSlice_body_zero (len i : Nat) :
    runViews false SeqBody.chunksFromSlice ⟨0, len, i⟩ = if len = 0 then .views [⟨0, 0, false⟩, ⟨0, 0, false⟩] else .panic := by
  by_cases h : len = 0
  · subst h; simp [runViews, SeqBody.chunksFromSlice, vexec, vstep, LX.eval, BX.eval, List.replicate]
  · simp [runViews, SeqBody.chunksFromSlice, vexec, vstep, LX.eval, BX.eval, h]

/-- `chunks_from_slice_mut` for `N > 0`: the same two extents as mutable views, both from the *one* pointer taken
    through the unique borrow (a second `as_mut_ptr()` would end the first view — the defect repaired in /repo), and
    they do not overlap -/
theorem chunksFromSliceMut_body (n len i : Nat) (hn : 0 < n) :
    runViews true SeqBody.chunksFromSliceMut ⟨n, len, i⟩ =
      .views [⟨0, len / n * n, true⟩, ⟨len / n * n, len - len / n * n, true⟩] := by
  have h0 : ¬ n = 0 := by omega
  have h1 : len / n * n ≤ len := Nat.div_mul_le_self len n
  have h2 : len / n * n + (len - len / n * n) ≤ len := by omega
  simp [runViews, SeqBody.chunksFromSliceMut, vexec, vstep, lookupP, lookupV, lookupVs, LX.eval, BX.eval, noAlias, View.disjoint,
    h0, h1, h2]

theorem chunksFromSliceMut_body_zero (len i : Nat) :
    runViews true SeqBody.chunksFromSliceMut ⟨0, len, i⟩ = if len = 0 then .views [⟨0, 0, true⟩, ⟨0, 0, true⟩] else .panic := by
  by_cases h : len = 0
  · subst h; simp [runViews, SeqBody.chunksFromSliceMut, vexec, vstep, LX.eval, BX.eval, List.replicate]
  · simp [runViews, SeqBody.chunksFromSliceMut, vexec, vstep, LX.eval, BX.eval, h]

/-- `slice_from_chunks(_mut)`: one view of all `len · N` elements of the chunk slice, at its address -/
theorem sliceFromChunks_body (n len i : Nat) :
    runViews false SeqBody.sliceFromChunks ⟨n, len, i⟩ = .views [⟨0, len * n, false⟩] ∧
    runViews true SeqBody.sliceFromChunksMut ⟨n, len, i⟩ = .views [⟨0, len * n, true⟩] := by
  constructor <;>
    simp [runViews, SeqBody.sliceFromChunks, SeqBody.sliceFromChunksMut, vexec, vstep, lookupP, lookupV, lookupVs, LX.eval, noAlias]

end GA.Bridge.SeqBody
