import GA.Gen.Mem
import GA.Lemmas.Tac
import GA.Lemmas.Attr
/-! Bridge obligations for the reinterpreting views of src/lib.rs, impls.rs and sequence.rs. -/
namespace GA.Bridge.Mem
open GA.Gen.Mem

/-- both views of `chunks_from_slice(_mut)` are made from pointers derived from the argument slice itself -/
@[ga_bridge] theorem chunksRootsAreSlice_eq : chunksRootsAreSlice = true := by bridge_bool [chunksRootsAreSlice]
@[ga_bridge] theorem chunksMutRootsAreSlice_eq : chunksMutRootsAreSlice = true := by bridge_bool [chunksMutRootsAreSlice]
@[ga_bridge] theorem chunksN0_eq (n : Nat) : chunksN0 n = decide (n = 0) := by bridge_bool [chunksN0]
@[ga_bridge] theorem chunksN0Empty_eq (len : Nat) : chunksN0Empty len = decide (len = 0) := by bridge_bool [chunksN0Empty]
@[ga_bridge] theorem chunksChunkOff_eq (len n : Nat) : chunksChunkOff len n = 0 := by bridge_nat [chunksChunkOff]
@[ga_bridge] theorem chunksNumChunks_eq (len n : Nat) : chunksNumChunks len n = len / n := by bridge_nat [chunksNumChunks]
@[ga_bridge] theorem chunksRemOff_eq (len n : Nat) : chunksRemOff len n = len / n * n := by bridge_nat [chunksRemOff]
@[ga_bridge] theorem chunksRemLen_eq (len n : Nat) : chunksRemLen len n = len - len / n * n := by bridge_nat [chunksRemLen]
theorem chunksOk_of (len n : Nat) (h : 0 < n) : (chunksNumChunksOk len n && chunksRemOffOk len n && chunksRemLenOk len n) = true := by
  simp [chunksNumChunksOk, chunksRemOffOk, chunksRemLenOk, h]; exact Nat.div_mul_le_self len n
@[ga_bridge] theorem chunksMutN0_eq (n : Nat) : chunksMutN0 n = decide (n = 0) := by bridge_bool [chunksMutN0]
@[ga_bridge] theorem chunksMutN0Empty_eq (len : Nat) : chunksMutN0Empty len = decide (len = 0) := by bridge_bool [chunksMutN0Empty]
@[ga_bridge] theorem chunksMutChunkOff_eq (len n : Nat) : chunksMutChunkOff len n = 0 := by bridge_nat [chunksMutChunkOff]
@[ga_bridge] theorem chunksMutNumChunks_eq (len n : Nat) : chunksMutNumChunks len n = len / n := by bridge_nat [chunksMutNumChunks]
@[ga_bridge] theorem chunksMutRemOff_eq (len n : Nat) : chunksMutRemOff len n = len / n * n := by bridge_nat [chunksMutRemOff]
@[ga_bridge] theorem chunksMutRemLen_eq (len n : Nat) : chunksMutRemLen len n = len - len / n * n := by bridge_nat [chunksMutRemLen]
theorem chunksMutOk_of (len n : Nat) (h : 0 < n) : (chunksMutNumChunksOk len n && chunksMutRemOffOk len n && chunksMutRemLenOk len n) = true := by
  simp [chunksMutNumChunksOk, chunksMutRemOffOk, chunksMutRemLenOk, h]; exact Nat.div_mul_le_self len n
@[ga_bridge] theorem flatOff_eq (k n : Nat) : flatOff k n = 0 := by bridge_nat [flatOff]
@[ga_bridge] theorem flatLen_eq (k n : Nat) : flatLen k n = k * n := by bridge_nat [flatLen]
@[ga_bridge] theorem flatMutOff_eq (k n : Nat) : flatMutOff k n = 0 := by bridge_nat [flatMutOff]
@[ga_bridge] theorem flatMutLen_eq (k n : Nat) : flatMutLen k n = k * n := by bridge_nat [flatMutLen]
@[ga_bridge] theorem flattenOutLen_eq (n m : Nat) : flattenOutLen n m = n * m := by bridge_nat [flattenOutLen]
@[ga_bridge] theorem flattenRefOutLen_eq (n m : Nat) : flattenRefOutLen n m = n * m := by bridge_nat [flattenRefOutLen]
@[ga_bridge] theorem flattenMutOutLen_eq (n m : Nat) : flattenMutOutLen n m = n * m := by bridge_nat [flattenMutOutLen]
@[ga_bridge] theorem unflattenOutLen_eq (nm n : Nat) : unflattenOutLen nm n = nm / n := by bridge_nat [unflattenOutLen]
@[ga_bridge] theorem unflattenRefOutLen_eq (nm n : Nat) : unflattenRefOutLen nm n = nm / n := by bridge_nat [unflattenRefOutLen]
@[ga_bridge] theorem unflattenMutOutLen_eq (nm n : Nat) : unflattenMutOutLen nm n = nm / n := by bridge_nat [unflattenMutOutLen]
@[ga_bridge] theorem fromSliceReject_eq (len n : Nat) : fromSliceReject len n = decide (len ≠ n) := by bridge_bool [fromSliceReject]
@[ga_bridge] theorem tryFromSliceReject_eq (len n : Nat) : tryFromSliceReject len n = decide (len ≠ n) := by bridge_bool [tryFromSliceReject]
@[ga_bridge] theorem fromMutSliceAccept_eq (len n : Nat) : fromMutSliceAccept len n = decide (len = n) := by bridge_bool [fromMutSliceAccept]
@[ga_bridge] theorem tryFromMutSliceAccept_eq (len n : Nat) : tryFromMutSliceAccept len n = decide (len = n) := by bridge_bool [tryFromMutSliceAccept]
@[ga_bridge] theorem transmuteReject_eq (a b : Nat) : transmuteReject a b = decide (a ≠ b) := by bridge_bool [transmuteReject]
@[ga_bridge] theorem fromSliceOff_eq : fromSliceOff = 0 := by bridge_nat [fromSliceOff]
@[ga_bridge] theorem tryFromSliceOff_eq : tryFromSliceOff = 0 := by bridge_nat [tryFromSliceOff]
@[ga_bridge] theorem fromMutSliceOff_eq : fromMutSliceOff = 0 := by bridge_nat [fromMutSliceOff]
@[ga_bridge] theorem fromArrayRefOff_eq : fromArrayRefOff = 0 := by bridge_nat [fromArrayRefOff]
@[ga_bridge] theorem fromArrayMutOff_eq : fromArrayMutOff = 0 := by bridge_nat [fromArrayMutOff]
@[ga_bridge] theorem fromChunksIsTransmute_eq : fromChunksIsTransmute = true := by bridge_bool [fromChunksIsTransmute]
@[ga_bridge] theorem fromChunksLenTied_eq : fromChunksLenTied = true := by bridge_bool [fromChunksLenTied]
@[ga_bridge] theorem fromChunksMutIsTransmute_eq : fromChunksMutIsTransmute = true := by bridge_bool [fromChunksMutIsTransmute]
@[ga_bridge] theorem fromChunksMutLenTied_eq : fromChunksMutLenTied = true := by bridge_bool [fromChunksMutLenTied]
@[ga_bridge] theorem intoChunksIsTransmute_eq : intoChunksIsTransmute = true := by bridge_bool [intoChunksIsTransmute]
@[ga_bridge] theorem intoChunksLenTied_eq : intoChunksLenTied = true := by bridge_bool [intoChunksLenTied]
@[ga_bridge] theorem intoChunksMutIsTransmute_eq : intoChunksMutIsTransmute = true := by bridge_bool [intoChunksMutIsTransmute]
@[ga_bridge] theorem intoChunksMutLenTied_eq : intoChunksMutLenTied = true := by bridge_bool [intoChunksMutLenTied]
@[ga_bridge] theorem tryFromDelegates_eq : tryFromDelegates = true := by bridge_bool [tryFromDelegates]
@[ga_bridge] theorem tryFromMutDelegates_eq : tryFromMutDelegates = true := by bridge_bool [tryFromMutDelegates]
@[ga_bridge] theorem derefIsAsSlice_eq : derefIsAsSlice = true := by bridge_bool [derefIsAsSlice]
@[ga_bridge] theorem derefMutIsAsMutSlice_eq : derefMutIsAsMutSlice = true := by bridge_bool [derefMutIsAsMutSlice]
@[ga_bridge] theorem refIterIsSliceIter_eq : refIterIsSliceIter = true := by bridge_bool [refIterIsSliceIter]
@[ga_bridge] theorem mutIterIsSliceIterMut_eq : mutIterIsSliceIterMut = true := by bridge_bool [mutIterIsSliceIterMut]
@[ga_bridge] theorem borrowIsAsSlice_eq : borrowIsAsSlice = true := by bridge_bool [borrowIsAsSlice]
@[ga_bridge] theorem borrowMutIsAsMutSlice_eq : borrowMutIsAsMutSlice = true := by bridge_bool [borrowMutIsAsMutSlice]
@[ga_bridge] theorem asRefIsAsSlice_eq : asRefIsAsSlice = true := by bridge_bool [asRefIsAsSlice]
@[ga_bridge] theorem asMutIsAsMutSlice_eq : asMutIsAsMutSlice = true := by bridge_bool [asMutIsAsMutSlice]
@[ga_bridge] theorem asRefArrayIsTransmute_eq : asRefArrayIsTransmute = true := by bridge_bool [asRefArrayIsTransmute]
@[ga_bridge] theorem asMutArrayIsTransmute_eq : asMutArrayIsTransmute = true := by bridge_bool [asMutArrayIsTransmute]
@[ga_bridge] theorem fromArrayIsTransmute_eq : fromArrayIsTransmute = true := by bridge_bool [fromArrayIsTransmute]
@[ga_bridge] theorem intoArrayIsTransmute_eq : intoArrayIsTransmute = true := by bridge_bool [intoArrayIsTransmute]
@[ga_bridge] theorem flattenRefProvenanceOk_eq : flattenRefProvenanceOk = true := by bridge_bool [flattenRefProvenanceOk]
@[ga_bridge] theorem flattenMutProvenanceOk_eq : flattenMutProvenanceOk = true := by bridge_bool [flattenMutProvenanceOk]
@[ga_bridge] theorem unflattenRefProvenanceOk_eq : unflattenRefProvenanceOk = true := by bridge_bool [unflattenRefProvenanceOk]
@[ga_bridge] theorem unflattenMutProvenanceOk_eq : unflattenMutProvenanceOk = true := by bridge_bool [unflattenMutProvenanceOk]

end GA.Bridge.Mem
