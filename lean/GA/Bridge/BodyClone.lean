import GA.Bridge.BodyCollect
/-!
Refinement obligation for the whole body of `Clone for GenericArray` (src/impls.rs):
`self.map(Clone::clone)` on `&self` resolves to the trait-default `FunctionalSequence::map`
(src/functional.rs) at `Self = &GenericArray`, i.e. `FromIterator::from_iter(self.into_iter().map(f))`
with `(&GenericArray)::into_iter = self.as_slice().iter()` (src/lib.rs) — all inlined from their
current source — against `GA.Ops.cloneOp` (= `mapOp .ref`).
-/
set_option linter.unusedSimpArgs false
namespace GA.Bridge.BodyClone
open GA.Body GA.Own GA.Bridge.Body GA.Bridge.BodyCollect

/-- the calls `clone(&x_j), clone(&x_{j+1}), …`: events, whether all returned, the clones so far -/
def lendSpec (f : Nat → Option Nat) : List Nat → Nat → List Nat → List Ev × Bool × List Nat
  | [], _, out => ([], true, out)
  | x :: rest, j, out =>
    match f j with
    | some y =>
      let r := lendSpec f rest (j + 1) (out ++ [y])
      (.lend j x :: .take j y :: r.1, r.2)
    | none => ([.lend j x, .panic j], false, out)

theorem lendSpec_len (f : Nat → Option Nat) : ∀ (xs : List Nat) (j : Nat) (out : List Nat),
    out.length ≤ (lendSpec f xs j out).2.2.length ∧ (lendSpec f xs j out).2.2.length ≤ out.length + xs.length ∧
    ((lendSpec f xs j out).2.1 = true → (lendSpec f xs j out).2.2.length = out.length + xs.length) ∧
    ((lendSpec f xs j out).2.1 = false → (lendSpec f xs j out).2.2.length < out.length + xs.length)
  | [], j, out => by simp [lendSpec]
  | x :: rest, j, out => by
    cases hf : f j with
    | none => simp [lendSpec, hf]
    | some y =>
      obtain ⟨a, b, c, d⟩ := lendSpec_len f rest (j + 1) (out ++ [y])
      simp only [List.length_append, List.length_cons, List.length_nil] at a b c d
      simp only [lendSpec, hf, List.length_cons]
      refine ⟨by omega, by omega, fun h => ?_, fun h => ?_⟩
      · have := c h; omega
      · have := d h; omega

/-- the ownership model's fill loop over `mapSrc .borrowed` (a `slice::Iter` side), in closed form -/
theorem own_lendLoop_eq (f : Nat → Option Nat) (xs : List Nat) :
    ∀ (rem j p : Nat) (out : List Nat), j + rem ≤ xs.length →
      Own.fillLoop true true (mapSrc .borrowed f) rem ⟨xs, j, p⟩ out =
        (if (lendSpec f ((xs.drop j).take rem) j out).2.1 then
           ((lendSpec f ((xs.drop j).take rem) j out).1,
             FillRes.full (lendSpec f ((xs.drop j).take rem) j out).2.2 ⟨xs, j + rem, if rem = 0 then p else j + rem⟩)
         else
           ((lendSpec f ((xs.drop j).take rem) j out).1 ++ (lendSpec f ((xs.drop j).take rem) j out).2.2.map .drop,
             FillRes.panicked)) := by
  intro rem
  induction rem with
  | zero => intro j p out _; simp [Own.fillLoop, lendSpec]
  | succ rem ih =>
    intro j p out h
    have hj : j < xs.length := by omega
    have hx : xs[j]? = some xs[j] := List.getElem?_eq_getElem hj
    rw [List.drop_eq_getElem_cons hj, List.take_succ_cons]
    cases hf : f j with
    | none =>
      have hstep : (mapSrc .borrowed f).step ⟨xs, j, p⟩ = .panic [.lend j xs[j], .panic j] ⟨xs, j + 1, j + 1⟩ := by
        simp [mapSrc, hx, hf, Side.after, arg, Side.owns]
      simp only [Own.fillLoop, hstep, lendSpec, hf]
      simp [builderDrop, mapSrc, Side.dropEv]
    | some y =>
      have hstep : (mapSrc .borrowed f).step ⟨xs, j, p⟩ = .yield [.lend j xs[j], .take j y] y ⟨xs, j + 1, j + 1⟩ := by
        simp [mapSrc, hx, hf, Side.after, arg, Side.owns]
      have := ih (j + 1) (j + 1) (out ++ [y]) (by omega)
      have e : j + 1 + rem = j + (rem + 1) := by omega
      simp only [Own.fillLoop, hstep, lendSpec, hf, this, e]
      split
      · by_cases hr : rem = 0 <;> simp [hr] <;> omega
      · simp

/-- machine state while `clone` runs: the source array is only read -/
def cst (xs : List Nat) (p0 : Nat) (outL : List Nat) (rem : Nat) (extra : Nat) : St :=
  ⟨⟨xs, 0, 0, p0, []⟩, ⟨outL ++ List.replicate rem 0, 0, 0, outL.length, List.range' outL.length rem⟩,
    true, outL.length + extra, false, outL.length + extra, false, {}⟩

theorem clone_map_loop_body (c : Ctx) (xs : List Nat) (p0 : Nat) :
    ∀ (rem : Nat) (outL : List Nat), outL.length + rem ≤ xs.length → xs.length < word →
      mapLoop .self (fun q s => exec c (cloOf Gen.Body.gaClone.body) (([] : List V).take 0 ++ [q]) s)
          (fun d v s => exec c (loopBodyOf Gen.Body.gaClone.body) ([] ++ [d, v]) s)
          ((List.range' outL.length rem).map (V.slot .out)) (cst xs p0 outL rem 0)
        = ((lendSpec c.cl ((xs.drop outL.length).take rem) outL.length outL).1,
           (if (lendSpec c.cl ((xs.drop outL.length).take rem) outL.length outL).2.1 then R.ret .unit else R.panicked),
           cst xs p0 (lendSpec c.cl ((xs.drop outL.length).take rem) outL.length outL).2.2
             (outL.length + rem - (lendSpec c.cl ((xs.drop outL.length).take rem) outL.length outL).2.2.length)
             (if (lendSpec c.cl ((xs.drop outL.length).take rem) outL.length outL).2.1 then 0 else 1)) := by
  intro rem
  induction rem with
  | zero => intro outL _ _; simp [mapLoop, lendSpec, cst]
  | succ rem ih =>
    intro outL h hw
    have hj : outL.length < xs.length := by omega
    have hw1 : outL.length + 1 < word := by omega
    have hx : xs[outL.length]? = some xs[outL.length] := List.getElem?_eq_getElem hj
    rw [List.range'_succ, List.map_cons, List.drop_eq_getElem_cons hj, List.take_succ_cons]
    cases hf : c.cl outL.length with
    | none =>
      simp [mapLoop, cst, cloOf, loopBodyOf, Gen.Body.gaClone, exec, eval, St.obj, St.putObj, O.get, O.put, natOf, hj, hw1,
        hf, lendSpec, hx]
    | some y =>
      have := ih (outL ++ [y]) (by simp; omega) hw
      simp only [List.length_append, List.length_cons, List.length_nil, Nat.zero_add, cst, Nat.add_zero] at this
      simp only [mapLoop, cst, lendSpec, hf, Nat.add_zero]
      simp [cloOf, loopBodyOf, Gen.Body.gaClone, exec, eval, St.obj, St.putObj, O.get, O.put, natOf, hj, hw1, hf, hx,
        repl_set0, erase_fresh] at this ⊢
      rw [this]
      simp
      omega

/-- **`Clone for GenericArray`, whole body** — `self.map(Clone::clone)` through the trait-default
    `map`, `(&GenericArray)::into_iter`, `from_iter`, `try_from_iter` and the builder, all inlined:
    for every array and every `T::clone` (returning or panicking at any call) the interpretation
    produces exactly the events and the result of the ownership model's `cloneOp`; the source array
    is only read, so nothing of it is dropped on any path. -/
theorem gaClone_body (xs : List Nat) (hw : xs.length < word) (c : Ctx) (hn : c.n = xs.length) (hb : c.bad = none) (p0 : Nat) :
    let r := runFn c Gen.Body.intrusiveDrop.body Gen.Body.gaClone []
      ⟨⟨xs, 0, 0, p0, []⟩, ⟨[], 0, 0, 0, []⟩, false, 0, false, 0, false, {}⟩
    (r.1, resOf r.2.1) = ((GA.Ops.cloneOp c.cl xs).1, some (GA.Ops.cloneOp c.cl xs).2) := by
  have hl := clone_map_loop_body c xs p0 xs.length [] (by simp) hw
  simp only [cloOf, loopBodyOf, Gen.Body.gaClone, List.length_nil, Nat.zero_add, cst, List.nil_append, List.drop_zero,
    List.take_length, List.take_nil] at hl
  have hlen := lendSpec_len c.cl xs 0 []
  have hm := own_lendLoop_eq c.cl xs xs.length 0 0 [] (by omega)
  simp only [List.drop_zero, List.take_length, Nat.zero_add, List.length_nil, Nat.sub_zero] at hm
  have hrej : hintReject canonFrags (xs.length, some xs.length) xs.length = false := by simp [hintReject, canonFrags]
  simp only [GA.Ops.cloneOp, GA.Ops.mapOp, libFrags_eq, Own.fromIter, Own.tryFromIter, hrej, Bool.false_eq_true, if_false,
    Consumer.ofList]
  rw [show canonFrags.writeBeforeCount = true from rfl, show canonFrags.destFirst = true from rfl, hm]
  generalize hq : lendSpec c.cl xs 0 [] = q at hl hlen
  obtain ⟨tr, ok, out⟩ := q
  simp only [List.length_nil, Nat.zero_add] at hlen
  obtain ⟨_, hle, hfull, hpart⟩ := hlen
  simp only at hl hle hfull hpart
  have hd := dropEvs_written out (xs.length - out.length)
  cases ok
  · have hlt : out.length < xs.length := hpart rfl
    have hle' : out.length ≤ xs.length - out.length + out.length := by omega
    simp [runFn, runDropOn, exec_fillMapS, exec_pollMapS, exec_ite, exec_newBuilder, exec_forgetO_out, exec_lenFail,
      exec_endOut, exec_done, exec_drop, exec_set, eval, St.obj, St.putObj, O.get, O.put, natOf, boolOf, resolve,
      GA.Body.panics, resOf, positions, List.range_eq_range', Gen.Body.gaClone, Gen.Body.intrusiveDrop,
      hn, hl, hb, hd, hle', dropEvs_init, idsOf]
  · have hlen' : out.length = xs.length := hfull rfl
    have e0 : xs.length - out.length = 0 := by omega
    have hstep : ∀ p, (mapSrc Side.borrowed c.cl).step ⟨xs, xs.length, p⟩ = .done [] ⟨xs, xs.length, p⟩ := by
      intro p; simp [mapSrc]
    simp [runFn, runDropOn, exec_fillMapS, exec_pollMapS, exec_ite, exec_newBuilder, exec_forgetO_out, exec_lenFail,
      exec_endOut, exec_done, exec_drop, exec_set, eval, St.obj, St.putObj, O.get, O.put, natOf, boolOf, resolve,
      GA.Body.panics, resOf, positions, List.range_eq_range', Gen.Body.gaClone, Gen.Body.intrusiveDrop,
      hn, hl, hb, hlen', e0, dropEvs, idsOf, canonFrags, hstep, mapSrc, Side.dropEv]

end GA.Bridge.BodyClone
