import GA.Bridge.BodyCollect
import GA.Bridge.Serde
import GA.Model.Serde
/-!
Refinement obligation for the whole body of `GAVisitor::visit_seq` (src/impl_serde.rs) — the
up-front `size_hint` test, `uninit` + `IntrusiveArrayBuilder::new`, `iter_position`, the fill loop
`for dst in build_iter { match seq.next_element()? { Some(el) => …, None => break } }`, the fullness
test, the surplus probe `next_element::<Dummy>()?` guarded by `size_hint() != Some(0)`, `finish`,
`array_assume_init`, and the three error returns — against the model `GA.Serde.visitSeq`.
-/
set_option linter.unusedSimpArgs false
namespace GA.Bridge.BodySerde
open GA.Body GA.Own GA.Bridge.Body GA.Bridge.BodyCollect
open GA.Serde (Step)

/-! ### a deserializer script as the scripted source the collect lemmas are stated for -/

def stepAns : Step → Option Nat
  | .elem x => some x
  | _ => none

/-- index (as a call number) of the first `next_element` call that returns `Err` -/
def firstFail : List Step → Nat → Option Nat
  | [], _ => none
  | .fail :: _, k => some k
  | _ :: t, k => firstFail t (k + 1)

def toSc (s : GA.Serde.Script) : Script := ⟨s.steps.map stepAns, s.k, firstFail s.steps s.k⟩

def sadv (s : GA.Serde.Script) : GA.Serde.Script := { s with steps := s.steps.tail, k := s.k + 1 }

theorem firstFail_ge : ∀ (l : List Step) (k m : Nat), firstFail l k = some m → k ≤ m
  | [], _, _, h => by simp [firstFail] at h
  | .fail :: _, k, m, h => by simp [firstFail] at h; omega
  | .elem _ :: t, k, m, h => by
    have := firstFail_ge t (k + 1) m (by simpa [firstFail] using h); omega
  | .none :: t, k, m, h => by
    have := firstFail_ge t (k + 1) m (by simpa [firstFail] using h); omega

theorem firstFail_ne (l : List Step) (k : Nat) : firstFail l (k + 1) ≠ some k := by
  intro h; have := firstFail_ge l (k + 1) k h; omega

/-- what the head of the remaining steps means for the next call -/
theorem pollOf_toSc (s : GA.Serde.Script) :
    pollOf (toSc s) 0 =
      (match s.steps with
       | .elem x :: _ => Poll.yield x
       | .fail :: _ => Poll.panic
       | _ => Poll.done) := by
  unfold pollOf toSc
  cases hs : s.steps with
  | nil => simp [firstFail]
  | cons a t =>
    cases a with
    | elem x => simp [firstFail, firstFail_ne, stepAns]
    | fail => simp [firstFail]
    | none => simp [firstFail, firstFail_ne, stepAns]

theorem toSc_sadv_elem (s : GA.Serde.Script) (x : Nat) (t : List Step) (hs : s.steps = .elem x :: t) :
    toSc (sadv s) = advance (toSc s) := by
  simp [toSc, sadv, advance, hs, firstFail]

/-- the model's fill loop over the deserializer script, in terms of `fillSpec` on the converted
    script; the state it ends in keeps both hints and, when every slot was written, converts to
    the script `fillSpec` ends in -/
theorem serde_fill : ∀ (rem : Nat) (s : GA.Serde.Script) (out : List Nat),
    ∃ s' : GA.Serde.Script,
      Own.fillLoop true true GA.Serde.src rem s out =
        (match (fillSpec rem (toSc s) out).2.1 with
         | 0 => ((fillSpec rem (toSc s) out).1, FillRes.full (fillSpec rem (toSc s) out).2.2.1 s')
         | 1 => ((fillSpec rem (toSc s) out).1, FillRes.short (fillSpec rem (toSc s) out).2.2.1 s')
         | _ => ((fillSpec rem (toSc s) out).1 ++ (fillSpec rem (toSc s) out).2.2.1.map .drop, FillRes.panicked)) ∧
      s'.hintEnd = s.hintEnd ∧
      ((fillSpec rem (toSc s) out).2.1 = 0 → toSc s' = (fillSpec rem (toSc s) out).2.2.2)
  | 0, s, out => ⟨s, by simp [Own.fillLoop, fillSpec]⟩
  | rem + 1, s, out => by
    have hp := pollOf_toSc s
    have hk0 : (toSc s).k = s.k := rfl
    cases hs : s.steps with
    | nil =>
      simp only [hs] at hp
      refine ⟨sadv s, ?_, rfl, ?_⟩
      · simp [Own.fillLoop, GA.Serde.src, hs, fillSpec, hp, sadv, hk0]
      · simp [fillSpec, hp]
    | cons a t =>
      cases a with
      | none =>
        simp only [hs] at hp
        refine ⟨sadv s, ?_, rfl, ?_⟩
        · simp [Own.fillLoop, GA.Serde.src, hs, fillSpec, hp, sadv, hk0]
        · simp [fillSpec, hp]
      | fail =>
        simp only [hs] at hp
        refine ⟨sadv s, ?_, rfl, ?_⟩
        · simp [Own.fillLoop, GA.Serde.src, hs, fillSpec, hp, sadv, builderDrop, hk0]
        · simp [fillSpec, hp]
      | elem x =>
        simp only [hs] at hp
        obtain ⟨s', h1, h2, h3⟩ := serde_fill rem (sadv s) (out ++ [x])
        rw [toSc_sadv_elem s x t hs] at h1 h3
        refine ⟨s', ?_, by simpa [sadv] using h2, ?_⟩
        · have hstep : GA.Serde.src.step s = .yield [.poll s.k, .take s.k x] x (sadv s) := by
            simp [GA.Serde.src, hs, sadv]
          simp only [Own.fillLoop, hstep, fillSpec, hp, h1]
          have hk : (toSc s).k = s.k := rfl
          generalize fillSpec rem (advance (toSc s)) (out ++ [x]) = q
          obtain ⟨tr, tag, o, sc'⟩ := q
          rcases tag with _ | _ | tag <;> simp [hk]
        · simpa [fillSpec, hp] using h3

/-! ### the interpreted loop -/

theorem exec_seqFill (c : Ctx) (body k : S) (env : List V) (st : St) :
    exec c (.seqFill body k) env st =
      match seqLoop c (fun d v s => exec c body (env ++ [d, v]) s) (positions .out 0 st.out.slots.length) st with
      | (tr, .ret .err, st') => (tr, .ret .err, st')
      | (tr, .ret _, st') =>
        let r := exec c k env st'
        (tr ++ r.1, r.2)
      | r => r := by
  first | rfl | (simp only [exec]; rfl)

theorem exec_probeS (c : Ctx) (k : S) (env : List V) (st : St) :
    exec c (.probeS k) env st = match c.src st.polls with
      | .yield _ =>
        (.poll st.polls :: (exec c k (env ++ [.bool true]) { st with polls := st.polls + 1 }).1,
          (exec c k (env ++ [.bool true]) { st with polls := st.polls + 1 }).2)
      | .done =>
        (.poll st.polls :: (exec c k (env ++ [.bool false]) { st with polls := st.polls + 1 }).1,
          (exec c k (env ++ [.bool false]) { st with polls := st.polls + 1 }).2)
      | .panic => ([.poll st.polls, .panic st.polls], .ret .err, { st with polls := st.polls + 1 }) := by
  first | rfl | (simp only [exec]; rfl)

/-- the body of the fill loop inside the regenerated `visit_seq` -/
def sbodyOf : S → S
  | .ite _ _ e => sbodyOf e
  | .newBuilder k => sbodyOf k
  | .seqFill b _ => b
  | _ => .opaque 0

theorem seq_loop_body (c : Ctx) (selfO : O) (calls : Nat) (fg : Bool) :
    ∀ (rem : Nat) (s : Script) (outL : List Nat), (∀ j, c.src (s.k + j) = pollOf s j) → outL.length + rem < word →
      seqLoop c (fun d v st => exec c (sbodyOf Gen.Body.visitSeq.body) ([] ++ [d, v]) st)
          ((List.range' outL.length rem).map (V.slot .out)) (bst selfO outL rem calls fg s.k)
        = ((fillSpec rem s outL).1, (if (fillSpec rem s outL).2.1 = 2 then R.ret .err else R.ret .unit),
            bst selfO (fillSpec rem s outL).2.2.1 (outL.length + rem - (fillSpec rem s outL).2.2.1.length) calls fg
              (fillSpec rem s outL).2.2.2.k) := by
  intro rem
  induction rem with
  | zero => intro s outL _ _; simp [seqLoop, fillSpec, bst]
  | succ rem ih =>
    intro s outL hsrc hw
    have h0 : c.src s.k = pollOf s 0 := by simpa using hsrc 0
    have hw1 : outL.length + 1 < word := by omega
    rw [List.range'_succ, List.map_cons]
    cases hq : pollOf s 0 with
    | done => simp [seqLoop, bst, h0, hq, fillSpec, advance]
    | panic => simp [seqLoop, bst, h0, hq, fillSpec, advance]
    | yield x =>
      have hs' : ∀ j, c.src ((advance s).k + j) = pollOf (advance s) j := by
        intro j
        rw [pollOf_advance]
        have : (advance s).k + j = s.k + (j + 1) := by simp [advance]; omega
        rw [this]; exact hsrc (j + 1)
      have := ih (advance s) (outL ++ [x]) hs' (by simp; omega)
      simp only [List.length_append, List.length_cons, List.length_nil, Nat.zero_add, bst] at this
      simp only [seqLoop, bst, h0, hq, fillSpec]
      simp [sbodyOf, Gen.Body.visitSeq, exec, eval, St.obj, St.putObj, O.get, O.put, natOf, hw1,
        set_fresh, repl_set0, erase_fresh, advance] at this ⊢
      rw [this]
      simp
      omega

def vresOf : R → Option GA.Serde.VRes
  | .ret (.ok (.arr l)) => some (.ok l)
  | .ret .err => some .err
  | _ => none

/-- the part of `visit_seq` after the up-front hint test -/
def vcoreOf : S → S
  | .ite _ _ k => k
  | _ => .opaque 0

theorem probe_facts (s' : GA.Serde.Script) :
    (GA.Serde.probeRejects s'.steps = (match pollOf (toSc s') 0 with | .done => false | _ => true)) ∧
    (GA.Serde.probeEv s'.steps s'.k =
      (match pollOf (toSc s') 0 with | .panic => [Ev.poll s'.k, Ev.panic s'.k] | _ => [Ev.poll s'.k])) := by
  rw [pollOf_toSc]
  cases hs : s'.steps with
  | nil => simp [GA.Serde.probeRejects, GA.Serde.probeEv]
  | cons a t => cases a <;> simp [GA.Serde.probeRejects, GA.Serde.probeEv]

theorem visit_core (c : Ctx) (hn : c.n < word) (s : GA.Serde.Script)
    (hsrc : ∀ j, c.src (s.k + j) = pollOf (toSc s) j) (hb : c.bad = none) (he : c.ext.shintEnd = s.hintEnd) (selfO : O) :
    let r := runFn c Gen.Body.intrusiveDrop.body ⟨.ref, vcoreOf Gen.Body.visitSeq.body⟩ []
      ⟨selfO, ⟨[], 0, 0, 0, []⟩, false, 0, false, s.k, false, {}⟩
    (r.1, vresOf r.2.1) =
      ((match Own.fillLoop GA.Gen.Serde.writeBeforeCount true GA.Serde.src c.n s [] with
        | (tr, .panicked) => (tr, GA.Serde.VRes.err)
        | (tr, .short out _) => GA.Serde.tailShort c.n tr out
        | (tr, .full out s') => GA.Serde.tailFull c.n tr out s').1,
       some (match Own.fillLoop GA.Gen.Serde.writeBeforeCount true GA.Serde.src c.n s [] with
        | (tr, .panicked) => (tr, GA.Serde.VRes.err)
        | (tr, .short out _) => GA.Serde.tailShort c.n tr out
        | (tr, .full out s') => GA.Serde.tailFull c.n tr out s').2) := by
  have hk : (toSc s).k = s.k := rfl
  have hl := seq_loop_body c selfO 0 false c.n (toSc s) [] hsrc (by simpa using hn)
  simp only [sbodyOf, Gen.Body.visitSeq, List.length_nil, Nat.zero_add, bst, List.nil_append, hk] at hl
  have hlen := fillSpec_len c.n (toSc s) []
  have hsrc' := fillSpec_src c c.n (toSc s) [] hsrc
  obtain ⟨s', hfill, hhe, hsc⟩ := serde_fill c.n s []
  rw [GA.Bridge.Serde.writeBeforeCount_eq, hfill]
  generalize hq : fillSpec c.n (toSc s) [] = q at hl hlen hsrc' hsc
  obtain ⟨tr, tag, out, sc'⟩ := q
  simp only [List.length_nil, Nat.zero_add] at hlen
  obtain ⟨hl0, hl1, hl2⟩ := hlen
  simp only at hl hsrc' hl0 hl1 hl2 hsc
  have hd := dropEvs_written out (c.n - out.length)
  have hs0 : c.src sc'.k = pollOf sc' 0 := by simpa using hsrc' 0
  rcases tag with _ | _ | tag
  · -- every slot written
    have hlen : out.length = c.n := hl0 rfl
    have e0 : c.n - out.length = 0 := by omega
    have hsc' : toSc s' = sc' := hsc rfl
    obtain ⟨pr, pe⟩ := probe_facts s'
    have hk' : s'.k = sc'.k := by rw [← hsc']; rfl
    rw [hsc'] at pr pe
    rw [hk'] at pe
    simp only [GA.Serde.tailFull, GA.Serde.probes, ga_bridge, hlen, decide_true, Bool.not_true, Bool.false_eq_true, if_false,
      Bool.true_and, hhe, pr, pe, hk']
    cases hh : s.hintEnd with
    | none =>
      cases hp : pollOf sc' 0 with
      | yield x =>
        collect_simp [vcoreOf, Gen.Body.visitSeq, Gen.Body.intrusiveDrop, exec_seqFill, exec_probeS, hl, hlen, hs0, hp, hb, hd,
          he, hh, vresOf]
        simp [dropEvs, idsOf, ← hlen]
      | done =>
        collect_simp [vcoreOf, Gen.Body.visitSeq, Gen.Body.intrusiveDrop, exec_seqFill, exec_probeS, hl, hlen, hs0, hp, hb, hd,
          he, hh, vresOf, e0]
      | panic =>
        collect_simp [vcoreOf, Gen.Body.visitSeq, Gen.Body.intrusiveDrop, exec_seqFill, exec_probeS, hl, hlen, hs0, hp, hb, hd,
          he, hh, vresOf]
        simp [dropEvs, idsOf, ← hlen]
    | some h =>
      by_cases hz : h = 0
      · subst hz
        collect_simp [vcoreOf, Gen.Body.visitSeq, Gen.Body.intrusiveDrop, exec_seqFill, exec_probeS, hl, hlen, hs0, hb, hd,
          he, hh, vresOf, e0]
      · cases hp : pollOf sc' 0 with
        | yield x =>
          collect_simp [vcoreOf, Gen.Body.visitSeq, Gen.Body.intrusiveDrop, exec_seqFill, exec_probeS, hl, hlen, hs0, hp, hb, hd,
            he, hh, vresOf, hz]
          simp [dropEvs, idsOf, ← hlen]
        | done =>
          collect_simp [vcoreOf, Gen.Body.visitSeq, Gen.Body.intrusiveDrop, exec_seqFill, exec_probeS, hl, hlen, hs0, hp, hb, hd,
            he, hh, vresOf, e0, hz]
        | panic =>
          collect_simp [vcoreOf, Gen.Body.visitSeq, Gen.Body.intrusiveDrop, exec_seqFill, exec_probeS, hl, hlen, hs0, hp, hb, hd,
            he, hh, vresOf, hz]
          simp [dropEvs, idsOf, ← hlen]
  · -- the source ended first
    have hlt : out.length < c.n := hl1 (by omega)
    have hne : ¬ out.length = c.n := by omega
    have hle : out.length ≤ c.n - out.length + out.length := by omega
    simp only [GA.Serde.tailShort, ga_bridge, hne, decide_false, Bool.false_eq_true, if_false]
    collect_simp [vcoreOf, Gen.Body.visitSeq, Gen.Body.intrusiveDrop, exec_seqFill, exec_probeS, hl, hne, hb, hd, hle, vresOf]
  · -- an element failed to parse
    have hlt : out.length < c.n := hl1 (by omega)
    have hle : out.length ≤ c.n - out.length + out.length := by omega
    have ht : tag + 1 + 1 = 2 := by omega
    collect_simp [vcoreOf, Gen.Body.visitSeq, Gen.Body.intrusiveDrop, exec_seqFill, exec_probeS, hl, hb, hd, hle, ht, vresOf]


/-- **`visit_seq`, whole body.**  For every length below `2^64`, both `size_hint` answers and every
    deserializer script (elements, a parse error at any call, early end, surplus input),
    interpreting the regenerated body — `IntrusiveArrayBuilder::{new, iter_position, finish}`
    inlined from their current source, the builder's regenerated destructor run on every early
    return — produces exactly the events and the result of the model `GA.Serde.visitSeq`. -/
theorem visitSeq_body (n : Nat) (hn : n < word) (s : GA.Serde.Script) (c : Ctx) (hcn : c.n = n) (hb : c.bad = none)
    (hsrc : ∀ j, c.src (s.k + j) = pollOf (toSc s) j) (h0 : c.ext.shint0 = s.hint0) (he : c.ext.shintEnd = s.hintEnd)
    (selfO : O) :
    let r := runFn c Gen.Body.intrusiveDrop.body Gen.Body.visitSeq [] ⟨selfO, ⟨[], 0, 0, 0, []⟩, false, 0, false, s.k, false, {}⟩
    (r.1, vresOf r.2.1) = ((GA.Serde.visitSeq n s).1, some (GA.Serde.visitSeq n s).2) := by
  subst hcn
  have hc := visit_core c hn s hsrc hb he selfO
  unfold GA.Serde.visitSeq GA.Serde.hintRejects
  cases hh : s.hint0 with
  | none =>
    have e : runFn c Gen.Body.intrusiveDrop.body Gen.Body.visitSeq [] ⟨selfO, ⟨[], 0, 0, 0, []⟩, false, 0, false, s.k, false, {}⟩
        = runFn c Gen.Body.intrusiveDrop.body ⟨.ref, vcoreOf Gen.Body.visitSeq.body⟩ [] ⟨selfO, ⟨[], 0, 0, 0, []⟩, false, 0, false, s.k, false, {}⟩ := by
      simp [runFn, Gen.Body.visitSeq, vcoreOf, exec_ite, eval, natOf, boolOf, h0, hh]
    rw [e]
    simp only [Bool.false_eq_true, if_false]
    exact hc
  | some k =>
    by_cases hkn : k = c.n
    · have e : runFn c Gen.Body.intrusiveDrop.body Gen.Body.visitSeq [] ⟨selfO, ⟨[], 0, 0, 0, []⟩, false, 0, false, s.k, false, {}⟩
          = runFn c Gen.Body.intrusiveDrop.body ⟨.ref, vcoreOf Gen.Body.visitSeq.body⟩ [] ⟨selfO, ⟨[], 0, 0, 0, []⟩, false, 0, false, s.k, false, {}⟩ := by
        simp [runFn, Gen.Body.visitSeq, vcoreOf, exec_ite, eval, natOf, boolOf, h0, hh, hkn]
      rw [e]
      simp only [ga_bridge, hkn, ne_eq, not_true_eq_false, decide_false, Bool.false_eq_true, if_false]
      exact hc
    · simp [runFn, Gen.Body.visitSeq, exec_ite, exec_done, eval, natOf, boolOf, h0, hh, hkn, ga_bridge, vresOf]


end GA.Bridge.BodySerde
