import GA.Gen.SeqBody
/-!
# Whole-body tie: `as_slice` / `as_mut_slice` and the checked slice → array-reference conversions of src/lib.rs

`len` = length of the argument slice, passed as `K`.  (Split off `GA.Bridge.SeqBody`: these obligations belong to C02 and
to the properties that rest on the same functions, and depend on no other function's body.)
-/
namespace GA.Bridge.SeqBody
open GA.MemBody GA.Gen

/-- `as_slice` / `as_mut_slice`: one view of exactly the `N` elements at the array's own address, made from the receiver
    reference itself (`self as *const Self` / `self as *mut Self`), writable only through the `&mut` receiver -/
theorem asSlice_body (n k i : Nat) :
    runViews false SeqBody.asSlice ⟨n, k, i⟩ = .views [⟨0, n, false⟩] ∧
    runViews true SeqBody.asMutSlice ⟨n, k, i⟩ = .views [⟨0, n, true⟩] := by
  constructor <;>
    simp [runViews, SeqBody.asSlice, SeqBody.asMutSlice, vexec, vstep, lookupP, lookupV, lookupVs, LX.eval, noAlias]

/-- `from_slice`: panics unless `len = N`; then one shared view of exactly the slice, at its address -/
theorem fromSlice_body (n len i : Nat) :
    runViews false SeqBody.fromSlice ⟨n, len, i⟩ = if len ≠ n then .panic else .views [⟨0, n, false⟩] := by
  by_cases h : len = n
  · subst h; simp [runViews, SeqBody.fromSlice, vexec, vstep, lookupP, lookupV, lookupVs, LX.eval, BX.eval, noAlias]
  · simp [runViews, SeqBody.fromSlice, vexec, vstep, LX.eval, BX.eval, h]

/-- `try_from_slice`: `Err(LengthError)` unless `len = N` -/
theorem tryFromSlice_body (n len i : Nat) :
    runViews false SeqBody.tryFromSlice ⟨n, len, i⟩ = if len ≠ n then .err else .views [⟨0, n, false⟩] := by
  by_cases h : len = n
  · subst h; simp [runViews, SeqBody.tryFromSlice, vexec, vstep, lookupP, lookupV, lookupVs, LX.eval, BX.eval, noAlias]
  · simp [runViews, SeqBody.tryFromSlice, vexec, vstep, LX.eval, BX.eval, h]

/-- `from_mut_slice`: the assertion fails unless `len = N`; then one mutable view made from the unique borrow's pointer -/
theorem fromMutSlice_body (n len i : Nat) :
    runViews true SeqBody.fromMutSlice ⟨n, len, i⟩ = if len = n then .views [⟨0, n, true⟩] else .panic := by
  by_cases h : len = n
  · subst h; simp [runViews, SeqBody.fromMutSlice, vexec, vstep, lookupP, lookupV, lookupVs, LX.eval, BX.eval, noAlias]
  · simp [runViews, SeqBody.fromMutSlice, vexec, vstep, LX.eval, BX.eval, h]

end GA.Bridge.SeqBody
