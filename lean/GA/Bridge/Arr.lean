import GA.Model.ArrMac
import GA.Lemmas.Tac
import GA.Lemmas.Attr
namespace GA.Bridge.Arr
open GA.Gen.Arr GA.Arr
@[ga_bridge] theorem arrArms_eq : arrArms =
    [⟨.list .star, .fromArrayList true⟩, ⟨.repTy, .transmuteRepeat⟩, ⟨.repExpr, .fromArrayRepeat true⟩] := by
  unfold arrArms; rfl
@[ga_bridge] theorem boxArms_eq : boxArms =
    [⟨.list .star, .vecHelperList⟩, ⟨.repTy, .tryFromVecRepeatTy⟩, ⟨.repExpr, .tryFromVecRepeatConst⟩] := by
  unfold boxArms; rfl
@[ga_bridge] theorem helperUnitIsOnePerExpr_eq : helperUnitIsOnePerExpr = true := by bridge_bool [helperUnitIsOnePerExpr]
@[ga_bridge] theorem vecHelperLenTied_eq : vecHelperLenTied = true := by bridge_bool [vecHelperLenTied]
end GA.Bridge.Arr
