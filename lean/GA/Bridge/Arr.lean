import GA.Model.ArrMac
import GA.Lemmas.Tac
import GA.Lemmas.Attr
namespace GA.Bridge.Arr
open GA.Gen.Arr GA.Arr
@[ga_bridge] theorem arrArms_eq : arrArms =
    [⟨.list .star, .fromArrayList true⟩, ⟨.repTy, .transmuteRepeat⟩, ⟨.repExpr, .fromArrayRepeat true⟩] := by
  unfold arrArms; rfl
@[ga_bridge] theorem boxArms_eq : boxArms =
    [⟨.list .star, .vecHelperList⟩, ⟨.repTy, .tryFromVecRepeatTy⟩, ⟨.repExpr, .tryFromVecRepeatConst⟩] := by
  unfold boxArms; rfl
@[ga_bridge] theorem helperUnitIsOnePerExpr_eq : helperUnitIsOnePerExpr = true := by bridge_bool [helperUnitIsOnePerExpr]
@[ga_bridge] theorem vecHelperLenTied_eq : vecHelperLenTied = true := by bridge_bool [vecHelperLenTied]
/-- the helper items the expansions define carry reserved (`__`-prefixed) names, so an element
    expression written by the caller cannot name — and be captured by — one of them -/
@[ga_bridge] theorem helperNamesReserved_eq : helperNamesReserved = true := by bridge_bool [helperNamesReserved]
end GA.Bridge.Arr
