import GA.Gen.Alloc
import GA.Lemmas.Tac
import GA.Lemmas.Attr
/-! Bridge obligations for the allocator interaction of boxed `generate` (src/impl_alloc.rs). -/
namespace GA.Bridge.HeapGen
open GA.Gen.Alloc

/-- the allocator is avoided exactly when the *array's* layout has size zero -/
theorem boxedNoAlloc_eq (esz n size : Nat) (hs : size = n * esz) : boxedNoAlloc esz n size = decide (size = 0) := by
  subst hs
  unfold boxedNoAlloc
  apply Bool.eq_iff_iff.mpr
  simp [Nat.mul_eq_zero]
theorem boxedNullChecked_eq : boxedNullChecked = true := by bridge_bool [boxedNullChecked]
theorem boxedDeallocGuard_eq : boxedDeallocGuard = true := by bridge_bool [boxedDeallocGuard]
/-- the pointer standing in for a zero-size block is aligned for the array -/
theorem boxedDanglingAligned_eq : boxedDanglingAligned = true := by bridge_bool [boxedDanglingAligned]

end GA.Bridge.HeapGen
