import GA.Bridge.BodyCollect
/-!
Refinement obligation for the whole body of `<GenericArray<T, N> as GenericSequence<T>>::inverted_zip`
(src/lib.rs) — what `a.zip(b, f)` on two owned arrays runs: the `needs_drop` test, the two
`ArrayConsumer`s (or `ManuallyDrop` wrappers), `iter_position`, the `Zip` of the two slice iterators
under a `Map` whose closure reads both slots, advances both positions and calls `f`, and
`FromIterator::from_iter` with everything it calls inlined — against `GA.Ops.zipOp .owned .owned`.
-/
set_option linter.unusedSimpArgs false
namespace GA.Bridge.BodyZip
open GA.Body GA.Own GA.Bridge.Body GA.Bridge.BodyCollect

/-- the calls `f(x_j, y_j), f(x_{j+1}, y_{j+1}), …`: events, whether all returned, the results so far -/
def zipSpec (f : Nat → Option Nat) : List (Nat × Nat) → Nat → List Nat → List Ev × Bool × List Nat
  | [], _, out => ([], true, out)
  | (x, y) :: rest, j, out =>
    match f j with
    | some z =>
      let r := zipSpec f rest (j + 1) (out ++ [z])
      (.give j x :: .give j y :: .take j z :: r.1, r.2)
    | none => ([.give j x, .give j y, .panic j], false, out)

theorem zipSpec_len (f : Nat → Option Nat) : ∀ (ps : List (Nat × Nat)) (j : Nat) (out : List Nat),
    out.length ≤ (zipSpec f ps j out).2.2.length ∧ (zipSpec f ps j out).2.2.length ≤ out.length + ps.length ∧
    ((zipSpec f ps j out).2.1 = true → (zipSpec f ps j out).2.2.length = out.length + ps.length) ∧
    ((zipSpec f ps j out).2.1 = false → (zipSpec f ps j out).2.2.length < out.length + ps.length)
  | [], j, out => by simp [zipSpec]
  | (x, y) :: rest, j, out => by
    cases hf : f j with
    | none => simp [zipSpec, hf]
    | some z =>
      obtain ⟨a, b, c, d⟩ := zipSpec_len f rest (j + 1) (out ++ [z])
      simp only [List.length_append, List.length_cons, List.length_nil] at a b c d
      simp only [zipSpec, hf, List.length_cons]
      refine ⟨by omega, by omega, fun h => ?_, fun h => ?_⟩
      · have := c h; omega
      · have := d h; omega

/-- the two sides a `zip` of owned arrays can be held by: both `ArrayConsumer`s with the
    regenerated position stores, or both `ManuallyDrop` -/
def GoodSides (sa sb : Side) : Prop :=
  (∀ (l : List Nat) (j : Nat) (ok : Bool), sa.after ⟨l, j, j⟩ j ok = ⟨l, j + 1, j + 1⟩) ∧
  (∀ (l : List Nat) (j : Nat) (ok : Bool), sb.after ⟨l, j, j⟩ j ok = ⟨l, j + 1, j + 1⟩) ∧
  sa.owns = true ∧ sb.owns = true

theorem good_consumers : GoodSides (.consumer Gen.Lib.izipLeftPosNew Gen.Lib.izipLeftAdvBeforeCall)
    (.consumer Gen.Lib.izipRightPosNew Gen.Lib.izipRightAdvBeforeCall) := by
  refine ⟨fun l j ok => ?_, fun l j ok => ?_, rfl, rfl⟩ <;>
    simp [Side.after, ga_bridge, Bridge.Lib.izipLeftPosNew_eq, Bridge.Lib.izipRightPosNew_eq]

theorem good_manual : GoodSides .manual .manual :=
  ⟨fun _ _ _ => rfl, fun _ _ _ => rfl, rfl, rfl⟩

/-- the ownership model's fill loop over `zipSrc`, in closed form -/
theorem own_zipLoop_eq (sa sb : Side) (hg : GoodSides sa sb) (f : Nat → Option Nat) (xs ys : List Nat)
    (hl : xs.length = ys.length) :
    ∀ (rem j : Nat) (out : List Nat), j + rem ≤ xs.length →
      Own.fillLoop true true (zipSrc sa sb f) rem ⟨⟨xs, j, j⟩, ⟨ys, j, j⟩⟩ out =
        (if (zipSpec f (((xs.zip ys).drop j).take rem) j out).2.1 then
           ((zipSpec f (((xs.zip ys).drop j).take rem) j out).1,
             FillRes.full (zipSpec f (((xs.zip ys).drop j).take rem) j out).2.2
               ⟨⟨xs, j + rem, j + rem⟩, ⟨ys, j + rem, j + rem⟩⟩)
         else
           ((zipSpec f (((xs.zip ys).drop j).take rem) j out).1 ++
              (zipSpec f (((xs.zip ys).drop j).take rem) j out).2.2.map .drop ++
              (zipSrc sa sb f).dropEv
                ⟨⟨xs, j + ((zipSpec f (((xs.zip ys).drop j).take rem) j out).2.2.length - out.length) + 1,
                      j + ((zipSpec f (((xs.zip ys).drop j).take rem) j out).2.2.length - out.length) + 1⟩,
                 ⟨ys, j + ((zipSpec f (((xs.zip ys).drop j).take rem) j out).2.2.length - out.length) + 1,
                      j + ((zipSpec f (((xs.zip ys).drop j).take rem) j out).2.2.length - out.length) + 1⟩⟩,
             FillRes.panicked)) := by
  obtain ⟨hA, hB, hoa, hob⟩ := hg
  intro rem
  induction rem with
  | zero => intro j out _; simp [Own.fillLoop, zipSpec]
  | succ rem ih =>
    intro j out h
    have hj : j < xs.length := by omega
    have hj' : j < ys.length := by omega
    have hjz : j < (xs.zip ys).length := by simp [List.length_zip]; omega
    have hx : xs[j]? = some xs[j] := List.getElem?_eq_getElem hj
    have hy : ys[j]? = some ys[j] := List.getElem?_eq_getElem hj'
    rw [List.drop_eq_getElem_cons hjz, List.take_succ_cons, List.getElem_zip]
    cases hf : f j with
    | none =>
      have hstep : (zipSrc sa sb f).step ⟨⟨xs, j, j⟩, ⟨ys, j, j⟩⟩
          = .panic [.give j xs[j], .give j ys[j], .panic j] ⟨⟨xs, j + 1, j + 1⟩, ⟨ys, j + 1, j + 1⟩⟩ := by
        simp [zipSrc, hx, hy, hf, hA, hB, hoa, hob, arg]
      simp only [Own.fillLoop, hstep, zipSpec, hf]
      simp [builderDrop]
    | some z =>
      have hstep : (zipSrc sa sb f).step ⟨⟨xs, j, j⟩, ⟨ys, j, j⟩⟩
          = .yield [.give j xs[j], .give j ys[j], .take j z] z ⟨⟨xs, j + 1, j + 1⟩, ⟨ys, j + 1, j + 1⟩⟩ := by
        simp [zipSrc, hx, hy, hf, hA, hB, hoa, hob, arg]
      have := ih (j + 1) (out ++ [z]) (by omega)
      have e : j + 1 + rem = j + (rem + 1) := by omega
      obtain ⟨l1, _, _, _⟩ := zipSpec_len f (((xs.zip ys).drop (j + 1)).take rem) (j + 1) (out ++ [z])
      simp only [List.length_append, List.length_cons, List.length_nil] at l1
      have e2 : j + 1 + ((zipSpec f (((xs.zip ys).drop (j + 1)).take rem) (j + 1) (out ++ [z])).2.2.length - (out.length + 1)) + 1
          = j + ((zipSpec f (((xs.zip ys).drop (j + 1)).take rem) (j + 1) (out ++ [z])).2.2.length - out.length) + 1 := by omega
      simp only [Own.fillLoop, hstep, zipSpec, hf, this, e, List.length_append, List.length_cons, List.length_nil, e2]
      split <;> simp

/-- machine state while `zip` runs: `outL.length + extra` pairs consumed -/
def zst (xs ys outL : List Nat) (rem : Nat) (extra : Nat) (fg og : Bool) : St :=
  ⟨⟨ys, 0, 0, outL.length + extra, []⟩, ⟨outL ++ List.replicate rem 0, 0, 0, outL.length, List.range' outL.length rem⟩,
    true, outL.length + extra, fg, outL.length + extra, false,
    { other := ⟨xs, 0, 0, outL.length + extra, []⟩, otherForgot := og }⟩

/-- the same for the `ManuallyDrop` branch: the positions are never stored -/
def zstM (xs ys outL : List Nat) (rem : Nat) (extra : Nat) (p0 q0 : Nat) : St :=
  ⟨⟨ys, 0, 0, p0, []⟩, ⟨outL ++ List.replicate rem 0, 0, 0, outL.length, List.range' outL.length rem⟩,
    true, outL.length + extra, true, outL.length + extra, false,
    { other := ⟨xs, 0, 0, q0, []⟩, otherForgot := true }⟩

theorem exec_fillZipMapS (c : Ctx) (l0 : Nat) (a b : Obj) (clo body k : S) (env : List V) (st : St) :
    exec c (.fillZipMapS l0 a b clo body k) env st =
      match zipMapLoop a b (fun p q s => exec c clo (env.take l0 ++ [p, q]) s) (fun d v s => exec c body (env ++ [d, v]) s)
          (positions .out 0 st.out.slots.length) st with
      | (tr, .ret _, st') =>
        let r := exec c k env st'
        (tr ++ r.1, r.2)
      | r => r := by
  first | rfl | (simp only [exec]; rfl)

theorem exec_pollZipMapS (c : Ctx) (l0 : Nat) (a b : Obj) (clo k : S) (env : List V) (st : St) :
    exec c (.pollZipMapS l0 a b clo k) env st =
      if st.polls < min (st.obj a).slots.length (st.obj b).slots.length then
        match exec c clo (env.take l0 ++ [.slot a st.polls, .slot b st.polls]) { st with polls := st.polls + 1 } with
        | (tr, .ret (.elem y), st') =>
          (tr ++ .drop y :: (exec c k (env ++ [.bool true]) st').1, (exec c k (env ++ [.bool true]) st').2)
        | (tr, .ret _, st') => (tr, .ub, st')
        | r => r
      else exec c k (env ++ [.bool false]) st := by
  first | rfl | (simp only [exec]; rfl)

theorem exec_forgetO_other (c : Ctx) (k : S) (env : List V) (st : St) :
    exec c (.forgetO .other k) env st = exec c k env { st with ext := { st.ext with otherForgot := true } } := by
  first | rfl | (simp only [exec]; rfl)

def thenOf : S → S
  | .ite _ t _ => t
  | _ => .opaque 0
def elseOf : S → S
  | .ite _ _ e => e
  | _ => .opaque 0
/-- closure / loop body of the `fillZipMapS` inside a branch -/
def zcloOf : S → S
  | .set _ _ _ k => zcloOf k
  | .ite _ _ e => zcloOf e
  | .newBuilder k => zcloOf k
  | .forgetO _ k => zcloOf k
  | .forget k => zcloOf k
  | .fillZipMapS _ _ _ cl _ _ => cl
  | _ => .opaque 0
def zbodyOf : S → S
  | .set _ _ _ k => zbodyOf k
  | .ite _ _ e => zbodyOf e
  | .newBuilder k => zbodyOf k
  | .forgetO _ k => zbodyOf k
  | .forget k => zbodyOf k
  | .fillZipMapS _ _ _ _ b _ => b
  | _ => .opaque 0

theorem zip_loop_body (c : Ctx) (xs ys : List Nat) (hl : xs.length = ys.length) (fg og : Bool) :
    ∀ (rem : Nat) (outL : List Nat), outL.length + rem ≤ ys.length → ys.length < word →
      zipMapLoop .other .self
          (fun p q s => exec c (zcloOf (thenOf Gen.Body.gaIzip.body)) (([] : List V).take 0 ++ [p, q]) s)
          (fun d v s => exec c (zbodyOf (thenOf Gen.Body.gaIzip.body)) ([] ++ [d, v]) s)
          ((List.range' outL.length rem).map (V.slot .out)) (zst xs ys outL rem 0 fg og)
        = ((zipSpec c.cl (((xs.zip ys).drop outL.length).take rem) outL.length outL).1,
           (if (zipSpec c.cl (((xs.zip ys).drop outL.length).take rem) outL.length outL).2.1 then R.ret .unit else R.panicked),
           zst xs ys (zipSpec c.cl (((xs.zip ys).drop outL.length).take rem) outL.length outL).2.2
             (outL.length + rem - (zipSpec c.cl (((xs.zip ys).drop outL.length).take rem) outL.length outL).2.2.length)
             (if (zipSpec c.cl (((xs.zip ys).drop outL.length).take rem) outL.length outL).2.1 then 0 else 1) fg og) := by
  intro rem
  induction rem with
  | zero => intro outL _ _; simp [zipMapLoop, zipSpec, zst]
  | succ rem ih =>
    intro outL h hw
    have hj' : outL.length < ys.length := by omega
    have hj : outL.length < xs.length := by omega
    have hjz : outL.length < (xs.zip ys).length := by simp [List.length_zip]; omega
    have hw1 : outL.length + 1 < word := by omega
    have hx : xs[outL.length]? = some xs[outL.length] := List.getElem?_eq_getElem hj
    have hy : ys[outL.length]? = some ys[outL.length] := List.getElem?_eq_getElem hj'
    rw [List.range'_succ, List.map_cons, List.drop_eq_getElem_cons hjz, List.take_succ_cons, List.getElem_zip]
    cases hf : c.cl outL.length with
    | none =>
      simp [zipMapLoop, zst, zcloOf, zbodyOf, thenOf, Gen.Body.gaIzip, exec, eval, St.obj, St.putObj, O.get, O.put, natOf,
        hj, hj', hw1, hf, zipSpec, hx, hy, hl]
    | some z =>
      have := ih (outL ++ [z]) (by simp; omega) hw
      simp only [List.length_append, List.length_cons, List.length_nil, Nat.zero_add, zst, Nat.add_zero] at this
      simp only [zipMapLoop, zst, zipSpec, hf, Nat.add_zero]
      simp [zcloOf, zbodyOf, thenOf, Gen.Body.gaIzip, exec, eval, St.obj, St.putObj, O.get, O.put, natOf, hj, hj', hw1, hf,
        hx, hy, hl, repl_set0, erase_fresh] at this ⊢
      rw [this]
      simp
      omega

/-- the loop of the `ManuallyDrop` branch: no position is stored, nothing will be dropped -/
theorem zip_loop_body_manual (c : Ctx) (xs ys : List Nat) (hl : xs.length = ys.length) (p0 q0 : Nat) :
    ∀ (rem : Nat) (outL : List Nat), outL.length + rem ≤ ys.length → ys.length < word →
      zipMapLoop .other .self
          (fun p q s => exec c (zcloOf (elseOf Gen.Body.gaIzip.body)) (([] : List V).take 0 ++ [p, q]) s)
          (fun d v s => exec c (zbodyOf (elseOf Gen.Body.gaIzip.body)) ([] ++ [d, v]) s)
          ((List.range' outL.length rem).map (V.slot .out)) (zstM xs ys outL rem 0 p0 q0)
        = ((zipSpec c.cl (((xs.zip ys).drop outL.length).take rem) outL.length outL).1,
           (if (zipSpec c.cl (((xs.zip ys).drop outL.length).take rem) outL.length outL).2.1 then R.ret .unit else R.panicked),
           zstM xs ys (zipSpec c.cl (((xs.zip ys).drop outL.length).take rem) outL.length outL).2.2
             (outL.length + rem - (zipSpec c.cl (((xs.zip ys).drop outL.length).take rem) outL.length outL).2.2.length)
             (if (zipSpec c.cl (((xs.zip ys).drop outL.length).take rem) outL.length outL).2.1 then 0 else 1) p0 q0) := by
  intro rem
  induction rem with
  | zero => intro outL _ _; simp [zipMapLoop, zipSpec, zstM]
  | succ rem ih =>
    intro outL h hw
    have hj' : outL.length < ys.length := by omega
    have hj : outL.length < xs.length := by omega
    have hjz : outL.length < (xs.zip ys).length := by simp [List.length_zip]; omega
    have hw1 : outL.length + 1 < word := by omega
    have hx : xs[outL.length]? = some xs[outL.length] := List.getElem?_eq_getElem hj
    have hy : ys[outL.length]? = some ys[outL.length] := List.getElem?_eq_getElem hj'
    rw [List.range'_succ, List.map_cons, List.drop_eq_getElem_cons hjz, List.take_succ_cons, List.getElem_zip]
    cases hf : c.cl outL.length with
    | none =>
      simp [zipMapLoop, zstM, zcloOf, zbodyOf, elseOf, Gen.Body.gaIzip, exec, eval, St.obj, St.putObj, O.get, O.put, natOf,
        hj, hj', hw1, hf, zipSpec, hx, hy, hl]
    | some z =>
      have := ih (outL ++ [z]) (by simp; omega) hw
      simp only [List.length_append, List.length_cons, List.length_nil, Nat.zero_add, zstM, Nat.add_zero] at this
      simp only [zipMapLoop, zstM, zipSpec, hf, Nat.add_zero]
      simp [zcloOf, zbodyOf, elseOf, Gen.Body.gaIzip, exec, eval, St.obj, St.putObj, O.get, O.put, natOf, hj, hj', hw1, hf,
        hx, hy, hl, repl_set0, erase_fresh] at this ⊢
      rw [this]
      simp
      omega

theorem zip_all (xs ys : List Nat) (hl : xs.length = ys.length) :
    ((xs.zip ys).drop 0).take xs.length = xs.zip ys := by
  rw [List.drop_zero]
  apply List.take_of_length_le
  simp [List.length_zip, hl]

/-- **`a.zip(b, f)` on two owned arrays, whole body** (`inverted_zip`, both `needs_drop` branches,
    everything `from_iter` calls inlined from its current source): for every pair of arrays of the
    same length below `2^64` and every closure (returning or panicking at any call) the
    interpretation — with the regenerated `Drop for ArrayConsumer` / `IntrusiveArrayBuilder` run in
    unwinding order — produces exactly the events and the result of the ownership model's `zipOp`. -/
theorem zip_all' (xs ys : List Nat) (hl : xs.length = ys.length) :
    ((xs.zip ys).drop 0).take ys.length = xs.zip ys := by
  rw [← hl]; exact zip_all xs ys hl

theorem gaIzip_body (xs ys : List Nat) (hl : xs.length = ys.length) (hw : ys.length < word) (c : Ctx)
    (hn : c.n = ys.length) (hb : c.bad = none) (p0 q0 : Nat) :
    let r := runFn3 c Gen.Body.consumerDrop.body Gen.Body.intrusiveDrop.body Gen.Body.gaIzip []
      ⟨⟨ys, 0, 0, p0, []⟩, ⟨[], 0, 0, 0, []⟩, false, 0, false, 0, false, { other := ⟨xs, 0, 0, q0, []⟩ }⟩
    (r.1, resOf r.2.1) =
      ((GA.Ops.zipOp .owned .owned c.ext.ndOther c.ext.ndSelf c.cl xs ys).1,
       some (GA.Ops.zipOp .owned .owned c.ext.ndOther c.ext.ndSelf c.cl xs ys).2) := by
  have hlen := zipSpec_len c.cl (xs.zip ys) 0 []
  have hzl : (xs.zip ys).length = ys.length := by simp [List.length_zip, hl]
  have hrej : hintReject canonFrags (xs.length, some xs.length) xs.length = false := by simp [hintReject, canonFrags]
  have hev : ∀ st, eval c [] st (.or (.needsDrop .self) (.needsDrop .other)) = some (.bool (c.ext.ndSelf || c.ext.ndOther)) := by
    intro st; cases hs : c.ext.ndSelf <;> cases ho : c.ext.ndOther <;> simp [eval, hs, ho, boolOf]
  by_cases hnd : (c.ext.ndSelf || c.ext.ndOther) = true
  · have hloop := zip_loop_body c xs ys hl false false ys.length [] (by simp) hw
    have hm := own_zipLoop_eq _ _ good_consumers c.cl xs ys hl xs.length 0 [] (by omega)
    simp only [zip_all xs ys hl, zip_all' xs ys hl, List.length_nil, Nat.zero_add, zst, List.nil_append, zcloOf, zbodyOf, thenOf,
      Gen.Body.gaIzip, Nat.sub_zero, List.take_nil] at hloop hm
    have hcf : GA.Ops.collectFrags (decide (GA.Ops.Form.owned = GA.Ops.Form.boxed)) = canonFrags := by
      rw [show decide (GA.Ops.Form.owned = GA.Ops.Form.boxed) = false from rfl]
      simp only [GA.Ops.collectFrags, Bool.false_eq_true, if_false, libFrags_eq]
    have hbr : Gen.Lib.izipDropBranch c.ext.ndSelf c.ext.ndOther = true := by
      rw [Bridge.Lib.izipDropBranch_eq]; exact hnd
    simp only [GA.Ops.zipOp, GA.Ops.zipSides, hbr, if_true, hcf, Own.fromIter, Own.tryFromIter, hrej,
      Bool.false_eq_true, if_false, Consumer.ofList]
    rw [show canonFrags.writeBeforeCount = true from rfl, show canonFrags.destFirst = true from rfl, hm]
    generalize hq : zipSpec c.cl (xs.zip ys) 0 [] = q at hloop hlen
    obtain ⟨tr, ok, out⟩ := q
    simp only [List.length_nil, Nat.zero_add, hzl] at hlen
    obtain ⟨_, hle, hfull, hpart⟩ := hlen
    simp only at hloop hle hfull hpart
    have hd := dropEvs_written out (ys.length - out.length)
    cases ok
    · have hlt : out.length < ys.length := hpart rfl
      have hle' : out.length ≤ ys.length - out.length + out.length := by omega
      have hle2 : out.length + 1 ≤ ys.length := by omega
      have hle3 : out.length + 1 ≤ xs.length := by omega
      simp only [runFn3, Gen.Body.gaIzip, exec_ite, hev, boolOf, hnd]
      simp [runDropOn, exec_fillZipMapS, exec_pollZipMapS, exec_ite, exec_newBuilder, exec_forgetO_out, exec_lenFail,
        exec_endOut, exec_done, exec_drop, exec_set, eval, St.obj, St.putObj, O.get, O.put, natOf, boolOf, resolve,
        GA.Body.panics, resOf, positions, List.range_eq_range', Gen.Body.gaIzip, Gen.Body.intrusiveDrop,
        Gen.Body.consumerDrop, hn, hl, hloop, hb, hd, hle', hle2, hle3, hnd, dropEvs_init, idsOf, zipSrc, Side.dropEv,
        Consumer.dropEv]
      congr 1 <;> (apply List.take_of_length_le; simp <;> omega)
    · have hlen' : out.length = ys.length := hfull rfl
      have hlenx : out.length = xs.length := by omega
      have e0 : ys.length - out.length = 0 := by omega
      have hstep : (zipSrc (Side.consumer Gen.Lib.izipLeftPosNew Gen.Lib.izipLeftAdvBeforeCall)
            (Side.consumer Gen.Lib.izipRightPosNew Gen.Lib.izipRightAdvBeforeCall) c.cl).step
            ⟨⟨xs, xs.length, xs.length⟩, ⟨ys, xs.length, xs.length⟩⟩
          = .done [] ⟨⟨xs, xs.length, xs.length⟩, ⟨ys, xs.length, xs.length⟩⟩ := by simp [zipSrc]
      simp only [runFn3, Gen.Body.gaIzip, exec_ite, hev, boolOf, hnd]
      simp [runDropOn, exec_fillZipMapS, exec_pollZipMapS, exec_ite, exec_newBuilder, exec_forgetO_out, exec_lenFail,
        exec_endOut, exec_done, exec_drop, exec_set, eval, St.obj, St.putObj, O.get, O.put, natOf, boolOf, resolve,
        GA.Body.panics, resOf, positions, List.range_eq_range', Gen.Body.intrusiveDrop,
        Gen.Body.consumerDrop, hn, hl, hloop, hb, hlen', e0, dropEvs, idsOf, canonFrags, hstep, zipSrc, Side.dropEv,
        Consumer.dropEv]
  · have hnd' : (c.ext.ndSelf || c.ext.ndOther) = false := by simpa using hnd
    have hloop := zip_loop_body_manual c xs ys hl p0 q0 ys.length [] (by simp) hw
    have hm := own_zipLoop_eq _ _ good_manual c.cl xs ys hl xs.length 0 [] (by omega)
    simp only [zip_all xs ys hl, zip_all' xs ys hl, List.length_nil, Nat.zero_add, zstM, List.nil_append, zcloOf, zbodyOf, elseOf,
      Gen.Body.gaIzip, Nat.sub_zero, List.take_nil] at hloop hm
    have hcf : GA.Ops.collectFrags (decide (GA.Ops.Form.owned = GA.Ops.Form.boxed)) = canonFrags := by
      rw [show decide (GA.Ops.Form.owned = GA.Ops.Form.boxed) = false from rfl]
      simp only [GA.Ops.collectFrags, Bool.false_eq_true, if_false, libFrags_eq]
    have hbr : Gen.Lib.izipDropBranch c.ext.ndSelf c.ext.ndOther = false := by
      rw [Bridge.Lib.izipDropBranch_eq]; exact hnd'
    simp only [GA.Ops.zipOp, GA.Ops.zipSides, hbr, Bool.false_eq_true, if_false, hcf, Own.fromIter, Own.tryFromIter, hrej,
      Consumer.ofList]
    rw [show canonFrags.writeBeforeCount = true from rfl, show canonFrags.destFirst = true from rfl, hm]
    generalize hq : zipSpec c.cl (xs.zip ys) 0 [] = q at hloop hlen
    obtain ⟨tr, ok, out⟩ := q
    simp only [List.length_nil, Nat.zero_add, hzl] at hlen
    obtain ⟨_, hle, hfull, hpart⟩ := hlen
    simp only at hloop hle hfull hpart
    have hd := dropEvs_written out (ys.length - out.length)
    cases ok
    · have hlt : out.length < ys.length := hpart rfl
      have hle' : out.length ≤ ys.length - out.length + out.length := by omega
      simp only [runFn3, Gen.Body.gaIzip, exec_ite, hev, boolOf, hnd']
      simp [runDropOn, exec_fillZipMapS, exec_pollZipMapS, exec_ite, exec_newBuilder, exec_forgetO_out, exec_forgetO_other,
        exec_forget, exec_lenFail,
        exec_endOut, exec_done, exec_drop, exec_set, eval, St.obj, St.putObj, O.get, O.put, natOf, boolOf, resolve,
        GA.Body.panics, resOf, positions, List.range_eq_range', Gen.Body.intrusiveDrop,
        Gen.Body.consumerDrop, hn, hl, hloop, hb, hd, hle', dropEvs_init, idsOf, zipSrc, Side.dropEv]
    · have hlen' : out.length = ys.length := hfull rfl
      have e0 : ys.length - out.length = 0 := by omega
      have hstep : (zipSrc Side.manual Side.manual c.cl).step
            ⟨⟨xs, xs.length, xs.length⟩, ⟨ys, xs.length, xs.length⟩⟩
          = .done [] ⟨⟨xs, xs.length, xs.length⟩, ⟨ys, xs.length, xs.length⟩⟩ := by simp [zipSrc]
      simp only [runFn3, Gen.Body.gaIzip, exec_ite, hev, boolOf, hnd']
      simp [runDropOn, exec_fillZipMapS, exec_pollZipMapS, exec_ite, exec_newBuilder, exec_forgetO_out, exec_forgetO_other,
        exec_forget, exec_lenFail,
        exec_endOut, exec_done, exec_drop, exec_set, eval, St.obj, St.putObj, O.get, O.put, natOf, boolOf, resolve,
        GA.Body.panics, resOf, positions, List.range_eq_range', Gen.Body.intrusiveDrop,
        Gen.Body.consumerDrop, hn, hl, hloop, hb, hlen', e0, dropEvs, idsOf, canonFrags, hstep, zipSrc, Side.dropEv]


end GA.Bridge.BodyZip
