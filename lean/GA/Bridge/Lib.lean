import GA.Gen.Lib
import GA.Gen.Alloc
import GA.Lemmas.Tac
import GA.Lemmas.Attr
/-! Bridge obligations for the builder / consumer / closure-loop fragments. -/
namespace GA.Bridge.Lib
open GA.Gen.Lib

@[ga_bridge] theorem extendWriteBeforeCount_eq : extendWriteBeforeCount = true := by bridge_bool [extendWriteBeforeCount]
@[ga_bridge] theorem extendPosNew_eq (p : Nat) : extendPosNew p = p + 1 := by bridge_nat [extendPosNew]
@[ga_bridge] theorem extendDestFirst_eq : extendDestFirst = true := by bridge_bool [extendDestFirst]
@[ga_bridge] theorem isFull_eq (pos n : Nat) : isFull pos n = decide (pos = n) := by bridge_bool [isFull]
@[ga_bridge] theorem builderDropLo_eq (pos n : Nat) : builderDropLo pos n = 0 := by bridge_nat [builderDropLo]
@[ga_bridge] theorem builderDropHi_eq (pos n : Nat) : builderDropHi pos n = pos := by bridge_nat [builderDropHi]
@[ga_bridge] theorem consumerDropLo_eq (pos n : Nat) : consumerDropLo pos n = pos := by bridge_nat [consumerDropLo]
@[ga_bridge] theorem consumerDropHi_eq (pos n : Nat) : consumerDropHi pos n = n := by bridge_nat [consumerDropHi]
@[ga_bridge] theorem arrayBuilderDropHi_eq (pos n : Nat) : arrayBuilderDropHi pos n = pos := by bridge_nat [arrayBuilderDropHi]
@[ga_bridge] theorem hintLoReject_eq (lo n : Nat) : hintLoReject lo n = decide (lo > n) := by bridge_bool [hintLoReject]
@[ga_bridge] theorem hintHiReject_eq (hi n : Nat) : hintHiReject hi n = decide (hi < n) := by bridge_bool [hintHiReject]
@[ga_bridge] theorem fullBeforePoll_eq : fullBeforePoll = true := by bridge_bool [fullBeforePoll]
@[ga_bridge] theorem finishAfterProbe_eq : finishAfterProbe = true := by bridge_bool [finishAfterProbe]
@[ga_bridge] theorem generateWriteBeforeCount_eq : generateWriteBeforeCount = true := by bridge_bool [generateWriteBeforeCount]
@[ga_bridge] theorem generatePosNew_eq (p : Nat) : generatePosNew p = p + 1 := by bridge_nat [generatePosNew]
@[ga_bridge] theorem generateCallsWithIndex_eq : generateCallsWithIndex = true := by bridge_bool [generateCallsWithIndex]
@[ga_bridge] theorem mapAdvBeforeCall_eq : mapAdvBeforeCall = true := by bridge_bool [mapAdvBeforeCall]
theorem mapPosNew_eq (p : Nat) : mapPosNew p p = p + 1 := by bridge_nat [mapPosNew]
@[ga_bridge] theorem foldAdvBeforeCall_eq : foldAdvBeforeCall = true := by bridge_bool [foldAdvBeforeCall]
theorem foldPosNew_eq (p : Nat) : foldPosNew p p = p + 1 := by bridge_nat [foldPosNew]
@[ga_bridge] theorem izipLeftAdvBeforeCall_eq : izipLeftAdvBeforeCall = true := by bridge_bool [izipLeftAdvBeforeCall]
@[ga_bridge] theorem izipRightAdvBeforeCall_eq : izipRightAdvBeforeCall = true := by bridge_bool [izipRightAdvBeforeCall]
theorem izipLeftPosNew_eq (p : Nat) : izipLeftPosNew p p = p + 1 := by bridge_nat [izipLeftPosNew]
theorem izipRightPosNew_eq (p : Nat) : izipRightPosNew p p = p + 1 := by bridge_nat [izipRightPosNew]
@[ga_bridge] theorem izipDropBranch_eq (a b : Bool) : izipDropBranch a b = (a || b) := by
  cases a <;> cases b <;> bridge_bool [izipDropBranch]
@[ga_bridge] theorem izip2RightAdvBeforeCall_eq : izip2RightAdvBeforeCall = true := by bridge_bool [izip2RightAdvBeforeCall]
theorem izip2RightPosNew_eq (p : Nat) : izip2RightPosNew p p = p + 1 := by bridge_nat [izip2RightPosNew]
@[ga_bridge] theorem izip2DropBranch_eq (a b : Bool) : izip2DropBranch a b = a := by
  cases a <;> cases b <;> bridge_bool [izip2DropBranch]
@[ga_bridge] theorem defIzipLeftAdvBeforeCall_eq : defIzipLeftAdvBeforeCall = true := by bridge_bool [defIzipLeftAdvBeforeCall]
theorem defIzipLeftPosNew_eq (p : Nat) : defIzipLeftPosNew p p = p + 1 := by bridge_nat [defIzipLeftPosNew]
@[ga_bridge] theorem gaZipIsInvertedZip_eq : gaZipIsInvertedZip = true := by bridge_bool [gaZipIsInvertedZip]
@[ga_bridge] theorem defZipIsInvertedZip2_eq : defZipIsInvertedZip2 = true := by bridge_bool [defZipIsInvertedZip2]
@[ga_bridge] theorem defMapIsFromIterMap_eq : defMapIsFromIterMap = true := by bridge_bool [defMapIsFromIterMap]
@[ga_bridge] theorem defFoldIsIterFold_eq : defFoldIsIterFold = true := by bridge_bool [defFoldIsIterFold]
@[ga_bridge] theorem defIzip2IsZipMap_eq : defIzip2IsZipMap = true := by bridge_bool [defIzip2IsZipMap]
@[ga_bridge] theorem cloneIsMapClone_eq : cloneIsMapClone = true := by bridge_bool [cloneIsMapClone]
@[ga_bridge] theorem cloneFromIsDefault_eq : cloneFromIsDefault = true := by bridge_bool [cloneFromIsDefault]
@[ga_bridge] theorem defaultIsGenerate_eq : defaultIsGenerate = true := by bridge_bool [defaultIsGenerate]
@[ga_bridge] theorem fromIterIsTryOrFail_eq : fromIterIsTryOrFail = true := by bridge_bool [fromIterIsTryOrFail]

end GA.Bridge.Lib

namespace GA.Bridge.Alloc
open GA.Gen.Alloc
@[ga_bridge] theorem hintLoReject_eq (lo n : Nat) : hintLoReject lo n = decide (lo > n) := by bridge_bool [hintLoReject]
@[ga_bridge] theorem hintHiReject_eq (hi n : Nat) : hintHiReject hi n = decide (hi < n) := by bridge_bool [hintHiReject]
@[ga_bridge] theorem notFull_eq (len n : Nat) : notFull len n = decide (len ≠ n) := by bridge_bool [notFull]
@[ga_bridge] theorem takeCount_eq (n : Nat) : takeCount n = n := by bridge_nat [takeCount]
@[ga_bridge] theorem capacity_eq (n : Nat) : capacity n = n := by bridge_nat [capacity]
@[ga_bridge] theorem vecLenReject_eq (len n : Nat) : vecLenReject len n = decide (len ≠ n) := by bridge_bool [vecLenReject]
@[ga_bridge] theorem boxedSliceLenReject_eq (len n : Nat) : boxedSliceLenReject len n = decide (len ≠ n) := by
  bridge_bool [boxedSliceLenReject]
@[ga_bridge] theorem intoBoxedSliceLen_eq (n : Nat) : intoBoxedSliceLen n = n := by bridge_nat [intoBoxedSliceLen]
end GA.Bridge.Alloc
