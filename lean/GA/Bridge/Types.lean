import GA.Model.Types
import GA.Lemmas.Tac
import GA.Lemmas.Attr
namespace GA.Bridge.Types
open GA.Gen.Types GA.Types
@[ga_bridge] theorem lengthenAccepts_eq (n : Nat) : lengthenAccepts n = true := by bridge_bool [lengthenAccepts]
@[ga_bridge] theorem lengthenLonger_eq (n : Nat) : lengthenLonger n = n + 1 := by bridge_nat [lengthenLonger]
@[ga_bridge] theorem shortenAccepts_eq (n : Nat) : shortenAccepts n = decide (1 ≤ n) := by bridge_bool [shortenAccepts]
@[ga_bridge] theorem shortenShorter_eq (n : Nat) : shortenShorter n = n - 1 := by bridge_nat [shortenShorter]
@[ga_bridge] theorem removeAccepts_eq (n : Nat) : removeAccepts n = decide (1 ≤ n) := by bridge_bool [removeAccepts]
@[ga_bridge] theorem removeOutput_eq (n : Nat) : removeOutput n = n - 1 := by bridge_nat [removeOutput]
@[ga_bridge] theorem splitAccepts_eq (n k : Nat) : splitAccepts n k = decide (k ≤ n) := by bridge_bool [splitAccepts]
@[ga_bridge] theorem splitFirst_eq (n k : Nat) : splitFirst n k = k := by bridge_nat [splitFirst]
@[ga_bridge] theorem splitSecond_eq (n k : Nat) : splitSecond n k = n - k := by bridge_nat [splitSecond]
@[ga_bridge] theorem splitRefAccepts_eq (n k : Nat) : splitRefAccepts n k = decide (k ≤ n) := by bridge_bool [splitRefAccepts]
@[ga_bridge] theorem splitRefFirst_eq (n k : Nat) : splitRefFirst n k = k := by bridge_nat [splitRefFirst]
@[ga_bridge] theorem splitRefSecond_eq (n k : Nat) : splitRefSecond n k = n - k := by bridge_nat [splitRefSecond]
@[ga_bridge] theorem splitMutAccepts_eq (n k : Nat) : splitMutAccepts n k = decide (k ≤ n) := by bridge_bool [splitMutAccepts]
@[ga_bridge] theorem splitMutFirst_eq (n k : Nat) : splitMutFirst n k = k := by bridge_nat [splitMutFirst]
@[ga_bridge] theorem splitMutSecond_eq (n k : Nat) : splitMutSecond n k = n - k := by bridge_nat [splitMutSecond]
@[ga_bridge] theorem concatAccepts_eq (n m : Nat) : concatAccepts n m = true := by bridge_bool [concatAccepts]
@[ga_bridge] theorem concatOutput_eq (n m : Nat) : concatOutput n m = n + m := by bridge_nat [concatOutput]
@[ga_bridge] theorem concatRest_eq (n m : Nat) : concatRest n m = m := by bridge_nat [concatRest]
@[ga_bridge] theorem flattenAccepts_eq (n m : Nat) : flattenAccepts n m = true := by bridge_bool [flattenAccepts]
@[ga_bridge] theorem flattenOutput_eq (n m : Nat) : flattenOutput n m = n * m := by bridge_nat [flattenOutput]
@[ga_bridge] theorem unflattenAccepts_eq (nm n : Nat) : unflattenAccepts nm n = decide (0 < n) := by bridge_bool [unflattenAccepts]
@[ga_bridge] theorem unflattenOutput_eq (nm n : Nat) : unflattenOutput nm n = nm / n := by bridge_nat [unflattenOutput]
@[ga_bridge] theorem zipLenTied_eq : zipLenTied = true := by bridge_bool [zipLenTied]
@[ga_bridge] theorem invertedZipLenTied_eq : invertedZipLenTied = true := by bridge_bool [invertedZipLenTied]
@[ga_bridge] theorem cmpSameTypeOnly_eq : cmpSameTypeOnly = true := by bridge_bool [cmpSameTypeOnly]
@[ga_bridge] theorem fromArrayConstTied_eq : fromArrayConstTied = true := by bridge_bool [fromArrayConstTied]
@[ga_bridge] theorem intoArrayConstTied_eq : intoArrayConstTied = true := by bridge_bool [intoArrayConstTied]
@[ga_bridge] theorem fromChunksConstTied_eq : fromChunksConstTied = true := by bridge_bool [fromChunksConstTied]
@[ga_bridge] theorem fromChunksMutConstTied_eq : fromChunksMutConstTied = true := by bridge_bool [fromChunksMutConstTied]
@[ga_bridge] theorem intoChunksConstTied_eq : intoChunksConstTied = true := by bridge_bool [intoChunksConstTied]
@[ga_bridge] theorem intoChunksMutConstTied_eq : intoChunksMutConstTied = true := by bridge_bool [intoChunksMutConstTied]
@[ga_bridge] theorem nativeArrayImplsTied_eq : nativeArrayImplsTied = true := by bridge_bool [nativeArrayImplsTied]
/-- the tuple table maps `k` fields to length `k`, for `k` in `1..=12` and nothing else -/
theorem tupleTable_eq : tupleTable = (List.range 12).map (fun i => (i + 1, i + 1)) := by decide
theorem tupleTable_spec (n k : Nat) : tupleTable.contains (n, k) = true ↔ (k = n ∧ 1 ≤ k ∧ k ≤ 12) := by
  rw [tupleTable_eq, List.contains_iff_mem]
  simp only [List.mem_map, List.mem_range, Prod.mk.injEq]
  constructor
  · rintro ⟨i, hi, h1, h2⟩; omega
  · rintro ⟨h1, h2, h3⟩; exact ⟨k - 1, by omega, by omega, by omega⟩
theorem autoImpls_eq : autoImpls = [("Send", "GenericArray", ["Send"]), ("Sync", "GenericArray", ["Sync"])] := by
  unfold autoImpls; rfl
@[ga_bridge] theorem autoTraitsStructural_eq : autoTraitsStructural = true := by bridge_bool [autoTraitsStructural]
theorem arrayCloneBounds_eq : arrayCloneBounds = ["Clone"] := by unfold arrayCloneBounds; rfl
theorem arrayCopyBounds_eq : arrayCopyBounds = ["Copy"] := by unfold arrayCopyBounds; rfl
theorem iterCloneBounds_eq : iterCloneBounds = ["Clone"] := by unfold iterCloneBounds; rfl
@[ga_bridge] theorem iterIsCopy_eq : iterIsCopy = false := by bridge_bool [iterIsCopy]
theorem lifetimes_all : ∀ a ∈ apis, lifetimesTied.find? (·.1 == a) = some (a, true) := by decide
end GA.Bridge.Types
