import GA.Drv.Iterq
import GA.Drv.LayoutE
import GA.Drv.OwnE
import GA.Drv.SeqE
import GA.Drv.MemE
import GA.Drv.HistE
import GA.Drv.HexE
import GA.Drv.HeapE
import GA.Drv.SerdeE
import GA.Drv.CmpE
import GA.Drv.FillE
import GA.Drv.ArrE
import GA.Drv.ConstE
import GA.Drv.TypesE
import GA.Drv.BodyE
open GA.Drv

/-- `--body` view: answers computed by interpreting the regenerated function bodies -/
def answerLineBody (line : String) : String :=
  match (line.trimAscii.toString.splitOn " ").filter (· ≠ "") with
  | seq :: engine :: rest =>
    let kv := parseKV rest
    let body := match engine with
      | "iterq" => BodyE.iterq kv
      | "own" => BodyE.own kv
      | "heap" => BodyE.heap kv
      | "serde" => BodyE.serde kv
      | "seq" => SeqE.answerBody kv
      | "chunks" => MemE.chunksBody kv
      | "regroup" => MemE.regroupBody kv
      | "views" => MemE.viewsBody kv
      | _ => "n/a"
    s!"{seq} {body}"
  | _ => "bad-line"

def answerLine (line : String) : String :=
  match (line.trimAscii.toString.splitOn " ").filter (· ≠ "") with
  | seq :: engine :: rest =>
    let kv := parseKV rest
    let body := match engine with
      | "iterq" => Iterq.answer kv
      | "layout" => LayoutE.answer kv
      | "own" => OwnE.answer kv
      | "seq" => SeqE.answer kv
      | "views" => MemE.views kv
      | "chunks" => MemE.chunks kv
      | "regroup" => MemE.regroup kv
      | "xmute" => MemE.xmute kv
      | "hist" => HistE.answer kv
      | "hex" => HexE.answer kv
      | "heap" => HeapE.answer kv
      | "serde" => SerdeE.answer kv
      | "cmp" => CmpE.answer kv
      | "fill" => FillE.answer kv
      | "filldefault" => FillE.answer kv
      | "arrmac" => ArrE.answer kv
      | "arrconst" => ArrE.answer kv
      | "constapi" => ConstE.answer kv
      | "types" => TypesE.answer kv
      | _ => "bad-engine"
    s!"{seq} {body}"
  | _ => "bad-line"

partial def loop (h : IO.FS.Stream) (out : IO.FS.Stream) (body : Bool) : IO Unit := do
  let line ← h.getLine
  if line.isEmpty then return ()
  if line.trimAscii.toString.isEmpty then loop h out body else
  out.putStrLn (if body then answerLineBody line else answerLine line)
  loop h out body

def main (args : List String) : IO Unit := do
  let out ← IO.getStdout
  loop (← IO.getStdin) out (args.contains "--body")
  out.flush
