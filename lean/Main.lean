import GA.Drv.Iterq
import GA.Drv.LayoutE
import GA.Drv.OwnE
import GA.Drv.SeqE
import GA.Drv.MemE
import GA.Drv.HistE
import GA.Drv.HexE
import GA.Drv.HeapE
import GA.Drv.SerdeE
import GA.Drv.CmpE
import GA.Drv.FillE
import GA.Drv.ArrE
import GA.Drv.ConstE
import GA.Drv.TypesE
open GA.Drv

def answerLine (line : String) : String :=
  match (line.trimAscii.toString.splitOn " ").filter (· ≠ "") with
  | seq :: engine :: rest =>
    let kv := parseKV rest
    let body := match engine with
      | "iterq" => Iterq.answer kv
      | "layout" => LayoutE.answer kv
      | "own" => OwnE.answer kv
      | "seq" => SeqE.answer kv
      | "views" => MemE.views kv
      | "chunks" => MemE.chunks kv
      | "regroup" => MemE.regroup kv
      | "hist" => HistE.answer kv
      | "hex" => HexE.answer kv
      | "heap" => HeapE.answer kv
      | "serde" => SerdeE.answer kv
      | "cmp" => CmpE.answer kv
      | "fill" => FillE.answer kv
      | "filldefault" => FillE.answer kv
      | "arrmac" => ArrE.answer kv
      | "arrconst" => ArrE.answer kv
      | "constapi" => ConstE.answer kv
      | "types" => TypesE.answer kv
      | _ => "bad-engine"
    s!"{seq} {body}"
  | _ => "bad-line"

partial def loop (h : IO.FS.Stream) (out : IO.FS.Stream) : IO Unit := do
  let line ← h.getLine
  if line.isEmpty then return ()
  if line.trimAscii.toString.isEmpty then loop h out else
  out.putStrLn (answerLine line)
  loop h out

def main : IO Unit := do
  let out ← IO.getStdout
  loop (← IO.getStdin) out
  out.flush
