//! Engine `iterq` (C06): drive `GenericArray::into_iter()` with an operation list and report
//! every output; oracle: `VecDeque` driven by the same operations.
use ga_harness::generic_array::{ArrayLength, GenericArray};
use ga_harness::*;
use std::collections::VecDeque;

fn item(o: Option<u64>) -> String {
    format!("item:{}", show_opt(o))
}
fn items<I: IntoIterator<Item = u64>>(l: I) -> String {
    format!("items:[{}]", show_nats(l))
}

fn exhausted<N: ArrayLength>() -> ga_harness::generic_array::GenericArrayIter<u64, N> {
    let mut e = GenericArray::<u64, N>::default().into_iter();
    while e.next().is_some() {}
    e
}

fn run<N: ArrayLength>(n: usize, ops: &[&str]) -> String {
    let arr: GenericArray<u64, N> = (0..n as u64).map(|i| i + 10).collect();
    let base = arr.as_ptr() as usize;
    let mut it = arr.into_iter();
    let mut dq: VecDeque<u64> = (0..n as u64).map(|i| i + 10).collect();
    let mut outs = Vec::new();
    let mut orc: Vec<String> = Vec::new();
    let _ = base;
    for (k, op) in ops.iter().enumerate() {
        let parts: Vec<&str> = op.split(':').collect();
        let (o, want): (String, String) = match parts[0] {
            "next" => (item(it.next()), item(dq.pop_front())),
            "next_back" => (item(it.next_back()), item(dq.pop_back())),
            "nth" => {
                let a: usize = parts[1].parse().unwrap();
                let w = {
                    for _ in 0..a.min(dq.len()) {
                        dq.pop_front();
                    }
                    dq.pop_front()
                };
                (item(it.nth(a)), item(w))
            }
            "nth_back" => {
                let a: usize = parts[1].parse().unwrap();
                let w = {
                    for _ in 0..a.min(dq.len()) {
                        dq.pop_back();
                    }
                    dq.pop_back()
                };
                (item(it.nth_back(a)), item(w))
            }
            "len" => (format!("num:{}", it.len()), format!("num:{}", dq.len())),
            "size_hint" => {
                let (lo, hi) = it.size_hint();
                (
                    format!("hint:{},{}", lo, show_opt(hi.map(|x| x as u64))),
                    format!("hint:{},{}", dq.len(), show_opt(Some(dq.len() as u64))),
                )
            }
            "as_slice" => (items(it.as_slice().iter().copied()), items(dq.iter().copied())),
            "write" => {
                let i: usize = parts[1].parse().unwrap();
                let v: u64 = parts[2].parse().unwrap();
                let s = it.as_mut_slice();
                if i < s.len() {
                    s[i] = v;
                    dq[i] = v;
                    ("unit".into(), "unit".into())
                } else {
                    ("oob".into(), if i < dq.len() { "unit".into() } else { "oob".into() })
                }
            }
            "clone" => {
                let c = it.clone();
                let o = items(c.as_slice().iter().copied());
                it = c;
                (o, items(dq.iter().copied()))
            }
            "fold" => {
                let c = it.clone();
                let v = c.fold(Vec::new(), |mut acc, x| {
                    acc.push(x);
                    acc
                });
                (items(v), items(dq.iter().copied()))
            }
            "rfold" => {
                let c = it.clone();
                let v = c.rfold(Vec::new(), |mut acc, x| {
                    acc.push(x);
                    acc
                });
                (items(v), items(dq.iter().rev().copied()))
            }
            "fold!" => {
                let old = std::mem::replace(&mut it, exhausted::<N>());
                let v = old.fold(Vec::new(), |mut acc, x| {
                    acc.push(x);
                    acc
                });
                let w = items(dq.iter().copied());
                dq.clear();
                (items(v), w)
            }
            "rfold!" => {
                let old = std::mem::replace(&mut it, exhausted::<N>());
                let v = old.rfold(Vec::new(), |mut acc, x| {
                    acc.push(x);
                    acc
                });
                let w = items(dq.iter().rev().copied());
                dq.clear();
                (items(v), w)
            }
            "count!" => {
                let old = std::mem::replace(&mut it, exhausted::<N>());
                let w = format!("num:{}", dq.len());
                dq.clear();
                (format!("num:{}", old.count()), w)
            }
            "last!" => {
                let old = std::mem::replace(&mut it, exhausted::<N>());
                let w = item(dq.back().copied());
                dq.clear();
                (item(old.last()), w)
            }
            "count" => (format!("num:{}", it.clone().count()), format!("num:{}", dq.len())),
            "last" => (item(it.clone().last()), item(dq.back().copied())),
            "debug" => {
                let s = format!("{:?}", it);
                let want = format!("GenericArrayIter({:?})", dq.iter().copied().collect::<Vec<_>>());
                let o = if s == want {
                    items(it.as_slice().iter().copied())
                } else {
                    format!("dbg:{}", s.replace(' ', ""))
                };
                (o, items(dq.iter().copied()))
            }
            _ => ("bad-op".into(), "bad-op".into()),
        };
        if o != want {
            orc.push(format!("op{}:{}:got={}:want={}", k, op, o, want));
        }
        outs.push(o);
    }
    let rest: Vec<u64> = it.as_slice().to_vec();
    if rest != dq.iter().copied().collect::<Vec<_>>() {
        orc.push("rest".into());
    }
    if it.len() != dq.len() {
        orc.push("len".into());
    }
    format!(
        "outs={} rest=[{}] len={} | orc={}",
        outs.join("/"),
        show_nats(rest),
        it.len(),
        if orc.is_empty() { "ok".to_string() } else { format!("FAIL({})", orc.join(";")) }
    )
}

fn main() {
    serve("iterq", |kv| {
        let n = get_usize(kv, "n").unwrap_or(usize::MAX);
        let ops: Vec<&str> = get(kv, "ops").split(';').filter(|s| !s.is_empty()).collect();
        let r = std::panic::catch_unwind(|| {
            with_lattice!(n, N, run::<N>(n, &ops), "unsupported-n".to_string())
        });
        match r {
            Ok(s) => s,
            Err(p) => format!("{} | orc=FAIL(panic)", panic_class(&*p)),
        }
    });
}
