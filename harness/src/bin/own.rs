//! Engine `own` (C03, C04, C05, C07, C08): run one ownership-moving operation with drop-tracked
//! elements, an optional injected panic (closure call k, clone call k, source poll k, destructor of
//! element id) and report the canonical event ledger.  Oracle (independent of the Lean model):
//! every element that existed is given away, dropped or returned exactly once.
use ga_harness::generic_array::functional::FunctionalSequence;
use ga_harness::generic_array::sequence::GenericSequence;
use ga_harness::generic_array::{ArrayLength, GenericArray};
use ga_harness::*;
use std::cell::RefCell;
use std::panic::{catch_unwind, AssertUnwindSafe};

thread_local! {
    static HELD: RefCell<Vec<Tr>> = RefCell::new(Vec::new());
    static HELD_PL: RefCell<Vec<Pl>> = RefCell::new(Vec::new());
    static CALL_PANIC: RefCell<Option<u64>> = RefCell::new(None);
    static QUIET: RefCell<bool> = RefCell::new(false);
}

fn hold(t: Tr) {
    HELD.with(|h| h.borrow_mut().push(t));
}
/// drop harness-owned values without recording their drops
fn quiet<R>(f: impl FnOnce() -> R) -> R {
    let n = LOG.with(|l| l.borrow().len());
    let r = f();
    LOG.with(|l| l.borrow_mut().truncate(n));
    r
}
fn call_panics(i: u64) -> bool {
    CALL_PANIC.with(|c| *c.borrow() == Some(i))
}

trait Arg {
    fn id(&self) -> u64;
    fn tag() -> &'static str;
    fn keep(self);
}
impl Arg for Tr {
    fn id(&self) -> u64 {
        self.id
    }
    fn tag() -> &'static str {
        "g"
    }
    fn keep(self) {
        hold(self)
    }
}
impl Arg for &Tr {
    fn id(&self) -> u64 {
        self.id
    }
    fn tag() -> &'static str {
        "l"
    }
    fn keep(self) {}
}
impl Arg for &mut Tr {
    fn id(&self) -> u64 {
        self.id
    }
    fn tag() -> &'static str {
        "l"
    }
    fn keep(self) {}
}
impl Arg for Pl {
    fn id(&self) -> u64 {
        self.id
    }
    fn tag() -> &'static str {
        "g"
    }
    fn keep(self) {
        HELD_PL.with(|h| h.borrow_mut().push(self));
    }
}
impl Arg for &Pl {
    fn id(&self) -> u64 {
        self.id
    }
    fn tag() -> &'static str {
        "l"
    }
    fn keep(self) {}
}
impl Arg for &mut Pl {
    fn id(&self) -> u64 {
        self.id
    }
    fn tag() -> &'static str {
        "l"
    }
    fn keep(self) {}
}

/// Zero-sized plain element (no destructor, no state): it cannot carry an id, so the closure log uses the virtual id
/// 1 + (number of elements seen so far) — enough to see *how many* calls were made and that each got one element.
#[derive(Clone, Debug)]
struct Zu;
thread_local! { static ZU_SEEN: RefCell<u64> = RefCell::new(0); }
fn zu_next() -> u64 {
    ZU_SEEN.with(|z| {
        let mut z = z.borrow_mut();
        *z += 1;
        *z
    })
}
impl Elem for Zu {
    const NEEDS_DROP: bool = false;
    fn mk(_id: u64) -> Zu {
        Zu
    }
    fn eid(&self) -> u64 {
        0
    }
}
impl Arg for Zu {
    fn id(&self) -> u64 {
        zu_next()
    }
    fn tag() -> &'static str {
        "g"
    }
    fn keep(self) {}
}
impl Arg for &Zu {
    fn id(&self) -> u64 {
        zu_next()
    }
    fn tag() -> &'static str {
        "l"
    }
    fn keep(self) {}
}
impl Arg for &mut Zu {
    fn id(&self) -> u64 {
        zu_next()
    }
    fn tag() -> &'static str {
        "l"
    }
    fn keep(self) {}
}

/// the closure body shared by map/zip/fold: log the arguments, maybe panic, return a fresh element
fn call1<A: Arg>(i: &mut u64, a: A) -> Tr {
    let k = *i;
    *i += 1;
    log(format!("{}{}:{}", A::tag(), k, a.id()));
    a.keep();
    if call_panics(k) {
        log(format!("p{}", k));
        panic!("inject:call:{}", k);
    }
    log(format!("t{}:{}", k, 1000 + k));
    Tr::new(1000 + k)
}
fn call2<A: Arg, B: Arg>(i: &mut u64, a: A, b: B) -> Tr {
    let k = *i;
    *i += 1;
    log(format!("{}{}:{}", A::tag(), k, a.id()));
    log(format!("{}{}:{}", B::tag(), k, b.id()));
    a.keep();
    b.keep();
    if call_panics(k) {
        log(format!("p{}", k));
        panic!("inject:call:{}", k);
    }
    log(format!("t{}:{}", k, 1000 + k));
    Tr::new(1000 + k)
}
/// unit-returning variants (the result type is zero-sized and has no destructor): same log, no element made
fn call1u<A: Arg>(i: &mut u64, a: A) {
    let k = *i;
    callf(i, a);
    log(format!("t{}:{}", k, 1000 + k));
}
fn call2u<A: Arg, B: Arg>(i: &mut u64, a: A, b: B) {
    let k = *i;
    *i += 1;
    log(format!("{}{}:{}", A::tag(), k, a.id()));
    log(format!("{}{}:{}", B::tag(), k, b.id()));
    a.keep();
    b.keep();
    if call_panics(k) {
        log(format!("p{}", k));
        panic!("inject:call:{}", k);
    }
    log(format!("t{}:{}", k, 1000 + k));
}
fn gen1u(k: usize) {
    let k = k as u64;
    if call_panics(k) {
        log(format!("p{}", k));
        panic!("inject:call:{}", k);
    }
    log(format!("t{}:{}", k, 1000 + k));
}
/// a unit array is reported by length: virtual ids 1000, 1001, …
fn unit_out<N: ArrayLength>(a: GenericArray<(), N>) -> (String, Vec<u64>) {
    ("ok".into(), (0..a.len() as u64).map(|k| 1000 + k).collect())
}
fn unit_box_out<N: ArrayLength>(a: Box<GenericArray<(), N>>) -> (String, Vec<u64>) {
    ("ok".into(), (0..a.len() as u64).map(|k| 1000 + k).collect())
}
fn callf<A: Arg>(i: &mut u64, a: A) {
    let k = *i;
    *i += 1;
    log(format!("{}{}:{}", A::tag(), k, a.id()));
    a.keep();
    if call_panics(k) {
        log(format!("p{}", k));
        panic!("inject:call:{}", k);
    }
}
fn gen1(k: usize) -> Tr {
    let k = k as u64;
    if call_panics(k) {
        log(format!("p{}", k));
        panic!("inject:call:{}", k);
    }
    log(format!("t{}:{}", k, 1000 + k));
    Tr::new(1000 + k)
}

fn arr<E: Elem, N: ArrayLength>(base: u64) -> GenericArray<E, N> {
    quiet(|| GenericArray::generate(|i| E::mk(base + i as u64)))
}
fn ids<'a, I: IntoIterator<Item = &'a Tr>>(it: I) -> String {
    show_nats(it.into_iter().map(|t| t.id))
}

/// canonical event string: the raw log with `drop:<id>` -> `d<id>`, runs of drops sorted
fn canon(log: Vec<String>) -> String {
    let mut out: Vec<String> = Vec::new();
    let mut run: Vec<u64> = Vec::new();
    let flush = |run: &mut Vec<u64>, out: &mut Vec<String>| {
        run.sort();
        for d in run.drain(..) {
            out.push(format!("d{}", d));
        }
    };
    for e in log {
        if let Some(id) = e.strip_prefix("drop:") {
            run.push(id.parse().unwrap_or(u64::MAX));
        } else if let Some(rest) = e.strip_prefix("clone:") {
            // clone:<k>:<src>><new>  ->  l<k>:<src>, t<k>:<new>
            flush(&mut run, &mut out);
            let mut p = rest.split(':');
            let k = p.next().unwrap();
            let sn: Vec<&str> = p.next().unwrap().split('>').collect();
            out.push(format!("l{}:{}", k, sn[0]));
            out.push(format!("t{}:{}", k, sn[1]));
        } else if let Some(k) = e.strip_prefix("panic:") {
            flush(&mut run, &mut out);
            out.push(format!("p{}", k));
        } else if let Some(rest) = e.strip_prefix("take:") {
            flush(&mut run, &mut out);
            out.push(format!("t{}", rest));
        } else {
            flush(&mut run, &mut out);
            out.push(e);
        }
    }
    flush(&mut run, &mut out);
    out.join(",")
}

struct Outcome {
    res: String,
    out: Vec<u64>,
}

fn finish<T>(r: std::thread::Result<T>, ok: impl FnOnce(T) -> (String, Vec<u64>)) -> Outcome {
    match r {
        Ok(v) => {
            let (res, out) = ok(v);
            Outcome { res, out }
        }
        Err(p) => {
            let c = panic_class(&*p);
            let res = if c.starts_with("panic(inject:") {
                "panicked".to_string()
            } else if c == "panic(from_iter_len)" {
                "panicked".to_string()
            } else {
                c
            };
            Outcome { res, out: vec![] }
        }
    }
}

fn arr_out<E: Elem, N: ArrayLength>(a: GenericArray<E, N>) -> (String, Vec<u64>) {
    let v: Vec<u64> = a.iter().map(|t| t.eid()).collect();
    quiet(|| drop(a));
    ("ok".into(), v)
}
fn box_out<E: Elem, N: ArrayLength>(a: Box<GenericArray<E, N>>) -> (String, Vec<u64>) {
    let v: Vec<u64> = a.iter().map(|t| t.eid()).collect();
    quiet(|| drop(a));
    ("ok".into(), v)
}

// ---------------------------------------------------------------------------------------------
// scripted source iterator (C07)
// ---------------------------------------------------------------------------------------------
struct Scripted {
    answers: Vec<bool>, // true = Some(item), false = None
    k: usize,
    hint: (usize, Option<usize>),
    panic_at: Option<usize>,
    after_none: bool,
    saw_none: bool,
}
thread_local! { static POLLED_AFTER_NONE: RefCell<bool> = RefCell::new(false); }
impl Iterator for Scripted {
    type Item = Tr;
    fn next(&mut self) -> Option<Tr> {
        let k = self.k;
        self.k += 1;
        log(format!("q{}", k));
        if self.saw_none {
            self.after_none = true;
            POLLED_AFTER_NONE.with(|p| *p.borrow_mut() = true);
        }
        if self.panic_at == Some(k) {
            log(format!("p{}", k));
            panic!("inject:poll:{}", k);
        }
        match self.answers.get(k) {
            Some(true) => {
                log(format!("t{}:{}", k, 500 + k));
                Some(Tr::new(500 + k as u64))
            }
            _ => {
                self.saw_none = true;
                None
            }
        }
    }
    fn size_hint(&self) -> (usize, Option<usize>) {
        self.hint
    }
}

fn run<N: ArrayLength, A: Elem, B: Elem>(kv: &KV) -> String
where
    A: Arg,
    B: Arg,
    for<'x> &'x A: Arg,
    for<'x> &'x mut A: Arg,
    for<'x> &'x B: Arg,
    for<'x> &'x mut B: Arg,
{
    reset();
    HELD.with(|h| quiet(|| h.borrow_mut().clear()));
    HELD_PL.with(|h| h.borrow_mut().clear());
    CALL_PANIC.with(|c| *c.borrow_mut() = None);
    ZU_SEEN.with(|z| *z.borrow_mut() = 0);
    POLLED_AFTER_NONE.with(|p| *p.borrow_mut() = false);
    let op = get(kv, "op");
    let form = get(kv, "form");
    let form2 = get(kv, "form2");
    let fault = get(kv, "fault");
    let mut dtor_bad: Option<u64> = None;
    if let Some(k) = fault.strip_prefix("call:") {
        CALL_PANIC.with(|c| *c.borrow_mut() = k.parse().ok());
    } else if let Some(k) = fault.strip_prefix("clone:") {
        BAD_CLONE.with(|c| *c.borrow_mut() = k.parse().ok());
    } else if let Some(k) = fault.strip_prefix("dtor:") {
        dtor_bad = k.parse().ok();
    }
    let mut inputs: Vec<u64> = Vec::new(); // ids the library receives by value
    let n = N::USIZE as u64;
    let a_ids: Vec<u64> = (0..n).map(|i| 1 + i).collect();
    let b_ids: Vec<u64> = (0..n).map(|i| 101 + i).collect();
    let mut i = 0u64;
    let mut second: Option<String> = None;
    let o: Outcome = match op {
        "generate" => finish(catch_unwind(|| GenericArray::<Tr, N>::generate(gen1)), arr_out),
        "default" => {
            BAD_CLONE.with(|c| *c.borrow_mut() = CALL_PANIC.with(|p| *p.borrow()));
            finish(catch_unwind(|| GenericArray::<Tr, N>::default()), |a| {
                let v: Vec<u64> = a.iter().map(|t| t.id).collect();
                quiet(|| drop(a));
                ("ok".into(), v)
            })
        }
        "map" => match form {
            "o" => {
                let a = arr::<A, N>(1);
                if A::NEEDS_DROP { inputs.extend(&a_ids); }
                finish(catch_unwind(AssertUnwindSafe(|| a.map(|x| call1(&mut i, x)))), arr_out)
            }
            "r" => {
                let a = arr::<A, N>(1);
                let r = finish(catch_unwind(AssertUnwindSafe(|| (&a).map(|x| call1(&mut i, x)))), arr_out);
                quiet(|| drop(a));
                r
            }
            "m" => {
                let mut a = arr::<A, N>(1);
                let r = finish(catch_unwind(AssertUnwindSafe(|| (&mut a).map(|x| call1(&mut i, x)))), arr_out);
                quiet(|| drop(a));
                r
            }
            "b" => {
                let a = quiet(|| Box::new(arr::<A, N>(1)));
                if A::NEEDS_DROP { inputs.extend(&a_ids); }
                finish(catch_unwind(AssertUnwindSafe(|| a.map(|x| call1(&mut i, x)))), box_out)
            }
            _ => return "bad-form".into(),
        },
        "clone" => {
            let a = arr::<A, N>(1);
            let r = finish(catch_unwind(AssertUnwindSafe(|| a.clone())), arr_out);
            quiet(|| drop(a));
            r
        }
        // results of a zero-sized type without destructor (`()`): every closure call still has to happen
        "generate_unit" => finish(catch_unwind(|| GenericArray::<(), N>::generate(gen1u)), unit_out),
        "boxed_generate_unit" => finish(catch_unwind(|| Box::<GenericArray<(), N>>::generate(gen1u)), unit_box_out),
        "map_unit" => match form {
            "o" => {
                let a = arr::<A, N>(1);
                if A::NEEDS_DROP { inputs.extend(&a_ids); }
                finish(catch_unwind(AssertUnwindSafe(|| a.map(|x| call1u(&mut i, x)))), unit_out)
            }
            "r" => {
                let a = arr::<A, N>(1);
                let r = finish(catch_unwind(AssertUnwindSafe(|| (&a).map(|x| call1u(&mut i, x)))), unit_out);
                quiet(|| drop(a));
                r
            }
            "m" => {
                let mut a = arr::<A, N>(1);
                let r = finish(catch_unwind(AssertUnwindSafe(|| (&mut a).map(|x| call1u(&mut i, x)))), unit_out);
                quiet(|| drop(a));
                r
            }
            "b" => {
                let a = quiet(|| Box::new(arr::<A, N>(1)));
                if A::NEEDS_DROP { inputs.extend(&a_ids); }
                finish(catch_unwind(AssertUnwindSafe(|| a.map(|x| call1u(&mut i, x)))), unit_box_out)
            }
            _ => return "bad-form".into(),
        },
        "zip_unit" => match (form, form2) {
            ("o", "o") => {
                let (a, b) = (arr::<A, N>(1), arr::<B, N>(101));
                if A::NEEDS_DROP { inputs.extend(&a_ids); }
                if B::NEEDS_DROP { inputs.extend(&b_ids); }
                finish(catch_unwind(AssertUnwindSafe(|| a.zip(b, |x, y| call2u(&mut i, x, y)))), unit_out)
            }
            ("o", "r") => {
                let (a, b) = (arr::<A, N>(1), arr::<B, N>(101));
                if A::NEEDS_DROP { inputs.extend(&a_ids); }
                let r = finish(catch_unwind(AssertUnwindSafe(|| a.zip(&b, |x, y| call2u(&mut i, x, y)))), unit_out);
                quiet(|| drop(b));
                r
            }
            ("r", "o") => {
                let (a, b) = (arr::<A, N>(1), arr::<B, N>(101));
                if B::NEEDS_DROP { inputs.extend(&b_ids); }
                let r = finish(catch_unwind(AssertUnwindSafe(|| (&a).zip(b, |x, y| call2u(&mut i, x, y)))), unit_out);
                quiet(|| drop(a));
                r
            }
            ("r", "r") => {
                let (a, b) = (arr::<A, N>(1), arr::<B, N>(101));
                let r = finish(catch_unwind(AssertUnwindSafe(|| (&a).zip(&b, |x, y| call2u(&mut i, x, y)))), unit_out);
                quiet(|| drop((a, b)));
                r
            }
            _ => return "bad-form".into(),
        },
        "clone_from" => {
            // `a.clone_from(&b)`: the old contents of `a` are the library's to dispose of; afterwards the harness
            // drops `a` with the log running ("|" separates), so a second release of anything shows in the ledger
            let boxed = get(kv, "boxed") == "1";
            let mut a = quiet(|| Box::new(arr::<Tr, N>(1)));
            let b = quiet(|| Box::new(arr::<Tr, N>(101)));
            inputs.extend(&a_ids);
            BAD_DROP.with(|x| *x.borrow_mut() = dtor_bad);
            let r = if boxed {
                catch_unwind(AssertUnwindSafe(|| a.clone_from(&b)))
            } else {
                catch_unwind(AssertUnwindSafe(|| (*a).clone_from(&*b)))
            };
            BAD_DROP.with(|x| *x.borrow_mut() = None);
            let fin: Vec<u64> = a.iter().map(|t| t.id).collect();
            let o = finish(r, |_| ("ok".into(), vec![]));
            log("|".into());
            drop(a);
            quiet(|| drop(b));
            second = Some(format!("final:{}", show_nats(fin).replace(',', ":")));
            o
        }
        "fold" => match form {
            "o" => {
                let a = arr::<A, N>(1);
                if A::NEEDS_DROP { inputs.extend(&a_ids); }
                finish(catch_unwind(AssertUnwindSafe(|| a.fold((), |_, x| callf(&mut i, x)))), |_| ("ok".into(), vec![]))
            }
            "r" => {
                let a = arr::<A, N>(1);
                let r = finish(catch_unwind(AssertUnwindSafe(|| (&a).fold((), |_, x| callf(&mut i, x)))), |_| ("ok".into(), vec![]));
                quiet(|| drop(a));
                r
            }
            "m" => {
                let mut a = arr::<A, N>(1);
                let r = finish(catch_unwind(AssertUnwindSafe(|| (&mut a).fold((), |_, x| callf(&mut i, x)))), |_| ("ok".into(), vec![]));
                quiet(|| drop(a));
                r
            }
            "b" => {
                let a = quiet(|| Box::new(arr::<A, N>(1)));
                if A::NEEDS_DROP { inputs.extend(&a_ids); }
                finish(catch_unwind(AssertUnwindSafe(|| a.fold((), |_, x| callf(&mut i, x)))), |_| ("ok".into(), vec![]))
            }
            _ => return "bad-form".into(),
        },
        "zip" => {
            macro_rules! z {
                ($a:expr, $b:expr, $out:expr) => {
                    finish(catch_unwind(AssertUnwindSafe(|| $a.zip($b, |x, y| call2(&mut i, x, y)))), $out)
                };
            }
            match (form, form2) {
                ("o", "o") => {
                    let (a, b) = (arr::<A, N>(1), arr::<B, N>(101));
                    if A::NEEDS_DROP { inputs.extend(&a_ids); }
                    if B::NEEDS_DROP { inputs.extend(&b_ids); }
                    z!(a, b, arr_out)
                }
                ("o", "r") => {
                    let (a, b) = (arr::<A, N>(1), arr::<B, N>(101));
                    if A::NEEDS_DROP { inputs.extend(&a_ids); }
                    let r = z!(a, &b, arr_out);
                    quiet(|| drop(b));
                    r
                }
                ("o", "m") => {
                    let (a, mut b) = (arr::<A, N>(1), arr::<B, N>(101));
                    if A::NEEDS_DROP { inputs.extend(&a_ids); }
                    let r = z!(a, &mut b, arr_out);
                    quiet(|| drop(b));
                    r
                }
                ("r", "o") => {
                    let (a, b) = (arr::<A, N>(1), arr::<B, N>(101));
                    if B::NEEDS_DROP { inputs.extend(&b_ids); }
                    let r = z!(&a, b, arr_out);
                    quiet(|| drop(a));
                    r
                }
                ("m", "o") => {
                    let (mut a, b) = (arr::<A, N>(1), arr::<B, N>(101));
                    if B::NEEDS_DROP { inputs.extend(&b_ids); }
                    let r = z!(&mut a, b, arr_out);
                    quiet(|| drop(a));
                    r
                }
                ("r", "r") => {
                    let (a, b) = (arr::<A, N>(1), arr::<B, N>(101));
                    let r = z!(&a, &b, arr_out);
                    quiet(|| drop((a, b)));
                    r
                }
                ("r", "m") => {
                    let (a, mut b) = (arr::<A, N>(1), arr::<B, N>(101));
                    let r = z!(&a, &mut b, arr_out);
                    quiet(|| drop((a, b)));
                    r
                }
                ("m", "r") => {
                    let (mut a, b) = (arr::<A, N>(1), arr::<B, N>(101));
                    let r = z!(&mut a, &b, arr_out);
                    quiet(|| drop((a, b)));
                    r
                }
                ("m", "m") => {
                    let (mut a, mut b) = (arr::<A, N>(1), arr::<B, N>(101));
                    let r = z!(&mut a, &mut b, arr_out);
                    quiet(|| drop((a, b)));
                    r
                }
                ("b", "b") => {
                    let (a, b) = quiet(|| (Box::new(arr::<A, N>(1)), Box::new(arr::<B, N>(101))));
                    if A::NEEDS_DROP { inputs.extend(&a_ids); }
                    if B::NEEDS_DROP { inputs.extend(&b_ids); }
                    z!(a, b, box_out)
                }
                _ => return "bad-form".into(),
            }
        }
        "collect" => {
            let boxed = get(kv, "boxed") == "1";
            let try_ = get(kv, "try") == "1";
            let answers: Vec<bool> = get(kv, "script").chars().map(|c| c == 's').collect();
            let hint = {
                let h = get(kv, "hint");
                let mut p = h.split(',');
                let lo: usize = p.next().unwrap_or("0").parse().unwrap_or(0);
                let hi = p.next().and_then(|x| x.parse().ok());
                (lo, hi)
            };
            let panic_at = fault.strip_prefix("poll:").and_then(|k| k.parse().ok());
            let src = Scripted { answers, k: 0, hint, panic_at, after_none: false, saw_none: false };
            // C05: one collected element's destructor panics while the library tears its intermediates down
            BAD_DROP.with(|b| *b.borrow_mut() = dtor_bad);
            match (boxed, try_) {
                (false, true) => finish(catch_unwind(AssertUnwindSafe(|| GenericArray::<Tr, N>::try_from_iter(src))), |r| match r {
                    Ok(a) => arr_out(a),
                    Err(_) => ("err".into(), vec![]),
                }),
                (false, false) => finish(catch_unwind(AssertUnwindSafe(|| src.collect::<GenericArray<Tr, N>>())), arr_out),
                (true, true) => finish(catch_unwind(AssertUnwindSafe(|| GenericArray::<Tr, N>::try_boxed_from_iter(src))), |r| match r {
                    Ok(a) => box_out(a),
                    Err(_) => ("err".into(), vec![]),
                }),
                (true, false) => finish(catch_unwind(AssertUnwindSafe(|| src.collect::<Box<GenericArray<Tr, N>>>())), box_out),
            }
        }
        "iter_nth" | "iter_nth_back" | "iter_last" | "iter_count" | "iter_drop" | "iter_clone" | "iter_fold" | "iter_rfold" => {
            let front = get_usize(kv, "front").unwrap_or(0);
            let back = get_usize(kv, "back").unwrap_or(N::USIZE);
            let k = get_usize(kv, "arg").unwrap_or(0);
            let mut it = arr::<Tr, N>(1).into_iter();
            quiet(|| {
                for _ in 0..front {
                    it.next();
                }
                for _ in back..N::USIZE {
                    it.next_back();
                }
            });
            inputs.extend(it.as_slice().iter().map(|t| t.id));
            BAD_DROP.with(|b| *b.borrow_mut() = dtor_bad);
            match op {
                "iter_nth" | "iter_nth_back" => {
                    let r = catch_unwind(AssertUnwindSafe(|| if op == "iter_nth" { it.nth(k) } else { it.nth_back(k) }));
                    let o = finish(r, |x| match x {
                        Some(t) => {
                            let id = t.id;
                            log(format!("g0:{}", id));
                            hold(t);
                            (format!("item:some({})", id), vec![])
                        }
                        None => ("item:none".into(), vec![]),
                    });
                    log("|".into());
                    let r2 = catch_unwind(AssertUnwindSafe(|| drop(it)));
                    second = Some(if r2.is_ok() { "ok".into() } else { "panicked".into() });
                    o
                }
                "iter_last" => finish(catch_unwind(AssertUnwindSafe(|| it.last())), |x| match x {
                    Some(t) => {
                        let id = t.id;
                        // the returned element is recorded first in the model's trace
                        LOG.with(|l| l.borrow_mut().insert(0, format!("g0:{}", id)));
                        hold(t);
                        (format!("item:some({})", id), vec![])
                    }
                    None => ("item:none".into(), vec![]),
                }),
                "iter_count" => finish(catch_unwind(AssertUnwindSafe(|| it.count())), |c| (format!("num:{}", c), vec![])),
                "iter_drop" => finish(catch_unwind(AssertUnwindSafe(|| drop(it))), |_| ("ok".into(), vec![])),
                "iter_clone" => {
                    inputs.clear();
                    let r = catch_unwind(AssertUnwindSafe(|| it.clone()));
                    let o = finish(r, |c| {
                        let v: Vec<u64> = c.as_slice().iter().map(|t| t.id).collect();
                        quiet(|| drop(c));
                        ("ok".into(), v)
                    });
                    quiet(|| drop(it));
                    o
                }
                "iter_fold" => finish(catch_unwind(AssertUnwindSafe(|| it.fold((), |_, x| callf(&mut i, x)))), |_| ("ok".into(), vec![])),
                "iter_rfold" => finish(catch_unwind(AssertUnwindSafe(|| it.rfold((), |_, x| callf(&mut i, x)))), |_| ("ok".into(), vec![])),
                _ => unreachable!(),
            }
        }
        _ => return "bad-op".into(),
    };
    BAD_DROP.with(|b| *b.borrow_mut() = None);
    let raw = take_log();
    HELD.with(|h| quiet(|| h.borrow_mut().clear()));
    take_log();
    // oracle: exactly-once ledger on the raw log
    let mut count: std::collections::HashMap<u64, i64> = std::collections::HashMap::new();
    let mut existed: Vec<u64> = inputs.clone();
    for e in &raw {
        if let Some(id) = e.strip_prefix("drop:") {
            *count.entry(id.parse().unwrap()).or_insert(0) += 1;
        } else if e.starts_with('g') {
            let id: u64 = e.split(':').nth(1).unwrap().parse().unwrap();
            *count.entry(id).or_insert(0) += 1;
        } else if e.starts_with('t') && !e.starts_with("take:") {
            existed.push(e.split(':').nth(1).unwrap().parse().unwrap());
        } else if let Some(rest) = e.strip_prefix("take:") {
            existed.push(rest.split(':').nth(1).unwrap().parse().unwrap());
        } else if let Some(rest) = e.strip_prefix("clone:") {
            existed.push(rest.split('>').nth(1).unwrap().parse().unwrap());
        }
    }
    for id in &o.out {
        *count.entry(*id).or_insert(0) += 1;
    }
    let mut orc: Vec<String> = Vec::new();
    // plain element kinds have no destructor: only drop-tracked ids take part in the ledger
    let tracked = |id: u64| -> bool {
        if (1..=100).contains(&id) {
            A::NEEDS_DROP || op.starts_with("iter_")
        } else if (101..=499).contains(&id) {
            B::NEEDS_DROP
        } else if id >= 1000 && op == "clone" {
            A::NEEDS_DROP
        } else if id >= 1000 && op.ends_with("_unit") {
            false
        } else {
            true
        }
    };
    for id in &existed {
        if !tracked(*id) {
            continue;
        }
        let c = count.get(id).copied().unwrap_or(0);
        // with a panicking destructor, unwinding may abandon (leak) an element — allowed by C05;
        // a second drop never is
        if c != 1 && !(dtor_bad.is_some() && c == 0) {
            orc.push(format!("id{}x{}", id, c));
        }
    }
    for (id, c) in &count {
        if tracked(*id) && !existed.contains(id) && *c > 0 {
            orc.push(format!("ghost{}x{}", id, c));
        }
    }
    if op == "iter_nth" || op == "iter_nth_back" {
        // C06: `nth(k)` / `nth_back(k)` consume exactly the k skipped elements and the one they return: inside the
        // call the library may drop skipped elements only (the requested one is returned or stays in the iterator),
        // whatever a destructor does
        let front = get_usize(kv, "front").unwrap_or(0);
        let back = get_usize(kv, "back").unwrap_or(N::USIZE);
        let k = get_usize(kv, "arg").unwrap_or(0);
        let m = k.min(back - front);
        let allowed: Vec<u64> = if op == "iter_nth" { (front..front + m).map(|i| i as u64 + 1).collect() } else { (back - m..back).map(|i| i as u64 + 1).collect() };
        for e in raw.iter().take_while(|e| e.as_str() != "|") {
            if let Some(id) = e.strip_prefix("drop:").and_then(|s| s.parse::<u64>().ok()) {
                if !allowed.contains(&id) {
                    orc.push(format!("dropped-unskipped{}", id));
                }
            }
        }
    }
    if op == "clone" && o.res == "ok" {
        // Clone is element-wise: exactly N calls of T::clone, on a[0], a[1], … in order
        let calls: Vec<u64> = raw.iter().filter_map(|e| e.strip_prefix("clone:")).map(|r| r.split(':').nth(1).unwrap().split('>').next().unwrap().parse().unwrap()).collect();
        if calls != a_ids {
            orc.push(format!("clone-calls{:?}", calls));
        }
    }
    let base_op = op.strip_prefix("boxed_").unwrap_or(op);
    let base_op = base_op.strip_suffix("_unit").unwrap_or(base_op);
    if (base_op == "map" || base_op == "zip" || op == "fold" || base_op == "generate" || op == "default") && fault == "none" {
        // once per index, ascending
        let idx: Vec<u64> = raw
            .iter()
            .filter_map(|e| {
                if let Some(r) = e.strip_prefix("take:") {
                    r.split(':').next().and_then(|k| k.parse().ok())
                } else if op == "fold" && (e.starts_with('g') || e.starts_with('l')) {
                    e[1..].split(':').next().and_then(|k| k.parse().ok())
                } else if op != "fold" && e.starts_with('t') && !e.starts_with("take:") {
                    e[1..].split(':').next().and_then(|k| k.parse().ok())
                } else {
                    None
                }
            })
            .collect();
        if idx != (0..n).collect::<Vec<u64>>() {
            orc.push(format!("call-order{:?}", idx));
        }
    }
    if op == "collect" {
        let polls = raw.iter().filter(|e| e.starts_with('q')).count();
        if polls > N::USIZE + 1 {
            orc.push(format!("polls{}", polls));
        }
        if POLLED_AFTER_NONE.with(|p| *p.borrow()) {
            orc.push("polled-after-none".into());
        }
        // Ok only for exactly N items then end
        let answers: Vec<bool> = get(kv, "script").chars().map(|c| c == 's').collect();
        let exact = answers.len() >= N::USIZE && answers[..N::USIZE].iter().all(|b| *b) && !answers.get(N::USIZE).copied().unwrap_or(false);
        if o.res == "ok" && !exact {
            orc.push("ok-but-not-exactly-n".into());
        }
        if o.res == "ok" && o.out != (0..N::USIZE as u64).map(|k| 500 + k).collect::<Vec<_>>() {
            orc.push("wrong-items".into());
        }
    }
    // an operation that was given exactly what it needs and no fault must not panic
    if fault == "none" && op != "collect" && (o.res.starts_with("panic") || o.res == "panicked") {
        orc.push("panicked-without-a-fault".into());
    }
    orc.sort();
    let ev = canon(raw);
    format!(
        "res={}{} ev={} out=[{}] | orc={}",
        o.res,
        second.map(|s| format!("/{}", s)).unwrap_or_default(),
        ev,
        show_nats(o.out.iter().copied()),
        if orc.is_empty() { "ok".to_string() } else { format!("FAIL({})", orc.join(";")) }
    )
}

fn main() {
    serve("own", |kv| {
        let n = get_usize(kv, "n").unwrap_or(usize::MAX);
        with_len!(n, N, run_kinds::<N>(kv), "unsupported-n".to_string();
            0 => U0, 1 => U1, 2 => U2, 3 => U3, 4 => U4, 5 => U5, 6 => U6, 7 => U7, 8 => U8,
            16 => U16, 17 => U17, 33 => U33)
    });
}

fn run_kinds<N: ArrayLength>(kv: &KV) -> String {
    match (get(kv, "kind"), get(kv, "kind2")) {
        ("zu", _) => run::<N, Zu, Tr>(kv),
        ("pl", "pl") => run::<N, Pl, Pl>(kv),
        ("pl", _) => run::<N, Pl, Tr>(kv),
        (_, "pl") => run::<N, Tr, Pl>(kv),
        _ => run::<N, Tr, Tr>(kv),
    }
}
