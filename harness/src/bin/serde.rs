//! Engine `serde` (C17): `Serialize` / `Deserialize` of `GenericArray` against a scripted
//! `Deserializer` (every up-front hint, element count, element error index, end-of-input hint) and
//! against JSON, bincode and `serde_json::Value`.  Elements are drop-tracked.
use ga_harness::generic_array::{ArrayLength, GenericArray};
use ga_harness::*;
use serde::de::{self, DeserializeSeed, Deserializer, SeqAccess, Visitor};
use serde::Deserialize;
use std::cell::Cell;

thread_local! { static CUR: Cell<u64> = const { Cell::new(0) }; static CREATED: Cell<u64> = const { Cell::new(0) }; }

/// drop-tracked element that deserialises from a `u64` id
struct TrD(Tr);
impl<'de> Deserialize<'de> for TrD {
    fn deserialize<D: Deserializer<'de>>(d: D) -> Result<Self, D::Error> {
        let id = u64::deserialize(d)?;
        let k = CUR.with(|c| c.get());
        CREATED.with(|c| c.set(c.get() + 1));
        logf!("t{}:{}", k, id);
        Ok(TrD(Tr::new(id)))
    }
}

#[derive(Clone, Copy, PartialEq)]
enum St { Elem, Fail, None }
struct Script { hint0: Option<usize>, steps: Vec<St>, hint_end: Option<usize>, k: usize }
type Err = serde::de::value::Error;
impl<'de> SeqAccess<'de> for &mut Script {
    type Error = Err;
    fn next_element_seed<T: DeserializeSeed<'de>>(&mut self, seed: T) -> Result<Option<T::Value>, Err> {
        let k = self.k;
        self.k += 1;
        logf!("q{}", k);
        CUR.with(|c| c.set(k as u64));
        match self.steps.get(k).copied().unwrap_or(St::None) {
            St::Elem => seed.deserialize(de::value::U64Deserializer::<Err>::new(500 + k as u64)).map(Some),
            St::Fail => {
                logf!("p{}", k);
                Err(de::Error::custom("scripted element error"))
            }
            St::None => Ok(None),
        }
    }
    fn size_hint(&self) -> Option<usize> {
        if self.k == 0 { self.hint0 } else { self.hint_end }
    }
}
struct ScriptDe<'a>(&'a mut Script);
impl<'de, 'a> Deserializer<'de> for ScriptDe<'a> {
    type Error = Err;
    fn deserialize_any<V: Visitor<'de>>(self, _: V) -> Result<V::Value, Err> {
        Err(de::Error::custom("only tuples"))
    }
    fn deserialize_tuple<V: Visitor<'de>>(self, _len: usize, v: V) -> Result<V::Value, Err> {
        v.visit_seq(self.0)
    }
    serde::forward_to_deserialize_any! { bool i8 i16 i32 i64 i128 u8 u16 u32 u64 u128 f32 f64 char str string bytes byte_buf option unit unit_struct newtype_struct seq tuple_struct map struct enum identifier ignored_any }
}

fn canon(log: Vec<String>) -> String {
    let mut out: Vec<String> = Vec::new();
    let mut run: Vec<u64> = Vec::new();
    for e in log {
        if let Some(id) = e.strip_prefix("drop:") {
            run.push(id.parse().unwrap_or(u64::MAX));
        } else {
            run.sort();
            out.extend(run.drain(..).map(|d| format!("d{}", d)));
            out.push(e);
        }
    }
    run.sort();
    out.extend(run.drain(..).map(|d| format!("d{}", d)));
    out.join(",")
}
fn parse_opt(s: &str) -> Option<usize> { s.parse().ok() }

fn ledger(raw: &[String], out: &[u64]) -> Vec<String> {
    let mut c = std::collections::HashMap::new();
    let mut existed = Vec::new();
    for e in raw {
        if let Some(id) = e.strip_prefix("drop:") { *c.entry(id.parse::<u64>().unwrap()).or_insert(0i64) += 1; }
        else if e.starts_with('t') { existed.push(e.split(':').nth(1).unwrap().parse::<u64>().unwrap()); }
    }
    for id in out { *c.entry(*id).or_insert(0) += 1; }
    let mut f = Vec::new();
    for id in &existed { if c.get(id).copied().unwrap_or(0) != 1 { f.push(format!("id{}x{}", id, c.get(id).copied().unwrap_or(0))); } }
    f
}

fn run<N: ArrayLength>(kv: &KV) -> String {
    reset();
    CREATED.with(|c| c.set(0));
    let n = N::USIZE;
    match get(kv, "op") {
        "de_script" => {
            let steps: Vec<St> = get(kv, "steps").chars().map(|c| match c { 'e' => St::Elem, 'x' => St::Fail, _ => St::None }).collect();
            let mut sc = Script { hint0: parse_opt(get(kv, "hint0")), steps: steps.clone(), hint_end: parse_opt(get(kv, "hintend")), k: 0 };
            let r = GenericArray::<TrD, N>::deserialize(ScriptDe(&mut sc));
            let (res, out): (&str, Vec<u64>) = match r {
                Ok(a) => { let v: Vec<u64> = a.iter().map(|t| t.0.id).collect(); let raw_before = LOG.with(|l| l.borrow().len()); drop(a); LOG.with(|l| l.borrow_mut().truncate(raw_before)); ("ok", v) }
                Err(_) => ("err", vec![]),
            };
            let raw = take_log();
            let mut f = ledger(&raw, &out);
            // oracle: Ok only for exactly N elements offered (unless the source claims "nothing left")
            let offered = steps.iter().take_while(|s| **s == St::Elem).count();
            let exact = offered == n;
            let closing = if n == 0 { parse_opt(get(kv, "hint0")) } else { parse_opt(get(kv, "hintend")) };
            let claims_done = closing == Some(0) && offered >= n && steps.iter().take(n).all(|s| *s == St::Elem);
            if res == "ok" && !(exact || claims_done) { f.push("accepted-wrong-count".to_string()); }
            if res == "ok" && out.len() != n { f.push("partial".to_string()); }
            let h0 = parse_opt(get(kv, "hint0"));
            if res == "err" && exact && (h0.is_none() || h0 == Some(n)) && steps.get(n).copied().unwrap_or(St::None) == St::None { f.push("rejected-exact".to_string()); }
            format!("res={} ev={} out=[{}] | orc={}", res, canon(raw), show_nats(out), if f.is_empty() { "ok".to_string() } else { format!("FAIL({})", f.join(";")) })
        }
        "ser" => {
            let a: GenericArray<u64, N> = (0..n as u64).map(|i| 1 + i).collect();
            let js = serde_json::to_string(&a).unwrap();
            let bc = bincode::serialize(&a).unwrap();
            let want_js = serde_json::to_string(&a.iter().copied().collect::<Vec<u64>>()).unwrap();
            let want_bc: Vec<u8> = a.iter().flat_map(|x| x.to_le_bytes()).collect();
            let mut f = Vec::new();
            if js != want_js { f.push("json".to_string()); }
            if bc != want_bc { f.push("bincode-framing".to_string()); }
            // round trip
            let back: GenericArray<u64, N> = serde_json::from_str(&js).unwrap();
            let back2: GenericArray<u64, N> = bincode::deserialize(&bc).unwrap();
            if back != a || back2 != a { f.push("roundtrip".to_string()); }
            format!("json={} bincode_len={} | orc={}", js, bc.len(), if f.is_empty() { "ok".to_string() } else { format!("FAIL({})", f.join(";")) })
        }
        "de_json" | "de_value" | "de_bincode" => {
            let cnt = get_usize(kv, "cnt").unwrap_or(n);
            let bad = get_usize(kv, "bad");
            let r: Result<GenericArray<TrD, N>, String> = match get(kv, "op") {
                "de_json" => {
                    let items: Vec<String> = (0..cnt).map(|i| if bad == Some(i) { "\"x\"".to_string() } else { format!("{}", 500 + i) }).collect();
                    serde_json::from_str(&format!("[{}]", items.join(","))).map_err(|e| e.to_string())
                }
                "de_value" => {
                    let items: Vec<serde_json::Value> = (0..cnt).map(|i| if bad == Some(i) { serde_json::Value::String("x".into()) } else { serde_json::Value::from(500 + i as u64) }).collect();
                    serde_json::from_value(serde_json::Value::Array(items)).map_err(|e| e.to_string())
                }
                _ => {
                    let bytes: Vec<u8> = (0..cnt as u64).flat_map(|i| (500 + i).to_le_bytes()).collect();
                    bincode::deserialize(&bytes).map_err(|e| e.to_string())
                }
            };
            let (res, out): (&str, Vec<u64>) = match r {
                Ok(a) => { let v: Vec<u64> = a.iter().map(|t| t.0.id).collect(); let k = LOG.with(|l| l.borrow().len()); drop(a); LOG.with(|l| l.borrow_mut().truncate(k)); ("ok", v) }
                Err(_) => ("err", vec![]),
            };
            let raw = take_log();
            let mut f = ledger(&raw, &out);
            let takes = raw.iter().filter(|e| e.starts_with('t')).count();
            let mut drops: Vec<u64> = raw.iter().filter_map(|e| e.strip_prefix("drop:").and_then(|x| x.parse().ok())).collect();
            drops.sort();
            let framed = get(kv, "op") != "de_bincode";
            let want_ok = if framed { cnt == n && bad.map_or(true, |b| b >= cnt) } else { cnt >= n };
            if (res == "ok") != want_ok { f.push("length-check".to_string()); }
            format!("res={} out=[{}] takes={} drops=[{}] | orc={}", res, show_nats(out), takes, show_nats(drops), if f.is_empty() { "ok".to_string() } else { format!("FAIL({})", f.join(";")) })
        }
        _ => "bad-op".to_string(),
    }
}

fn main() {
    serve("serde", |kv| {
        let n = get_usize(kv, "n").unwrap_or(usize::MAX);
        with_len!(n, N, run::<N>(kv), "unsupported-n".to_string();
            0 => U0, 1 => U1, 2 => U2, 3 => U3, 4 => U4, 5 => U5, 6 => U6, 7 => U7, 8 => U8, 16 => U16, 17 => U17, 33 => U33, 64 => U64, 97 => U97)
    });
}
