//! Engine `xmute` (C01, C02): the size check of `const_transmute` that backs every by-value
//! reinterpretation (`from_array`, `into_array`, `assume_init`, owned `flatten` / `unflatten`).
//! Oracle: the call panics iff the two types differ in size; on success the bytes are unchanged.
use ga_harness::generic_array::{const_transmute, GenericArray};
use ga_harness::typenum::*;
use ga_harness::*;
use std::mem::{size_of, MaybeUninit};
use std::panic::{catch_unwind, AssertUnwindSafe};

/// A value of plain-data type `A` with bytes 1, 2, 3, …; transmuted to `B`; the first
/// `min(size)` bytes of the result are reported.
fn go<A: Copy, B: Copy>(kv: &KV) -> String {
    let (sa, sb) = (size_of::<A>(), size_of::<B>());
    if get_usize(kv, "sa") != Some(sa) || get_usize(kv, "sb") != Some(sb) {
        return format!("bad-op(sizes are {} {})", sa, sb);
    }
    let mut a = MaybeUninit::<A>::zeroed();
    unsafe {
        let p = a.as_mut_ptr() as *mut u8;
        for i in 0..sa {
            p.add(i).write((i + 1) as u8);
        }
    }
    let a = unsafe { a.assume_init() };
    let r = catch_unwind(AssertUnwindSafe(|| unsafe { const_transmute::<A, B>(a) }));
    let mut f = Vec::new();
    let res = match r {
        Ok(b) => {
            if sa != sb {
                f.push("accepted-size-mismatch".to_string());
            }
            let bytes: Vec<u8> = unsafe { std::slice::from_raw_parts(&b as *const B as *const u8, sb.min(sa)).to_vec() };
            if bytes.iter().enumerate().any(|(i, x)| *x != (i + 1) as u8) {
                f.push("bytes-changed".to_string());
            }
            "ok"
        }
        Err(_) => {
            if sa == sb {
                f.push("rejected-equal-sizes".to_string());
            }
            "panic"
        }
    };
    format!("res={} | orc={}", res, if f.is_empty() { "ok".to_string() } else { f.join("+") })
}

fn main() {
    serve("xmute", |kv| match get(kv, "pair") {
        "0" => go::<[u8; 4], [u16; 2]>(kv),
        "1" => go::<[u8; 4], [u8; 2]>(kv),
        "2" => go::<[u8; 2], [u8; 4]>(kv),
        "3" => go::<GenericArray<u8, U8>, [u8; 6]>(kv),
        "4" => go::<GenericArray<u8, U6>, [u8; 8]>(kv),
        "5" => go::<GenericArray<u16, U3>, [u8; 6]>(kv),
        "6" => go::<(), [u8; 0]>(kv),
        "7" => go::<(), u8>(kv),
        "8" => go::<u8, ()>(kv),
        "9" => go::<GenericArray<(u8, u32), U7>, [(u8, u32); 6]>(kv),
        "10" => go::<[u32; 3], GenericArray<u32, U3>>(kv),
        "11" => go::<GenericArray<GenericArray<u8, U2>, U3>, GenericArray<u8, U7>>(kv),
        "12" => go::<GenericArray<u8, U7>, GenericArray<GenericArray<u8, U2>, U3>>(kv),
        "13" => go::<GenericArray<u64, U0>, [u64; 0]>(kv),
        "14" => go::<GenericArray<u64, U1>, [u64; 0]>(kv),
        "15" => go::<[u8; 1024], GenericArray<u8, U1024>>(kv),
        "16" => go::<[u8; 1025], GenericArray<u8, U1024>>(kv),
        _ => "bad-op".to_string(),
    });
}
