//! Engine `fill` (C19): `Zeroize::zeroize` and `ConstDefault` / `const_default()` on the real
//! `GenericArray`, for every length 0..=64 and boundary lengths up to 1024 (every even/odd storage
//! shape to depth 10), with element types whose zeroized and default values are distinguishable.
use const_default::ConstDefault;
use ga_harness::generic_array::typenum::U3;
use ga_harness::generic_array::sequence::GenericSequence;
use ga_harness::generic_array::{ArrayLength, GenericArray};
use ga_harness::*;
use zeroize::Zeroize;

/// zeroize keeps `id`, sets `wiped`, clears `secret`; the constant default is not all-zero bytes
#[derive(Clone, Debug, PartialEq)]
struct Slot { id: u32, wiped: bool, secret: u64 }
impl Zeroize for Slot {
    fn zeroize(&mut self) { self.secret.zeroize(); self.wiped = true; }
}
impl ConstDefault for Slot {
    const DEFAULT: Self = Slot { id: 7, wiped: false, secret: 0x1234 };
}
impl Default for Slot {
    fn default() -> Self { Self::DEFAULT }
}

/// alignment 1, two bytes, the constant default is not one repeated byte
#[derive(Clone, Debug, PartialEq)]
struct P2 { a: u8, b: u8 }
impl Zeroize for P2 {
    fn zeroize(&mut self) { self.a.zeroize(); self.b.zeroize(); }
}
impl ConstDefault for P2 {
    const DEFAULT: Self = P2 { a: 0x11, b: 0x22 };
}
impl Default for P2 {
    fn default() -> Self { Self::DEFAULT }
}

/// one byte; its zeroized state is 0xFF (not the zero byte) and its constant default 0x33
#[derive(Clone, Debug, PartialEq)]
struct W1(u8);
impl Zeroize for W1 {
    fn zeroize(&mut self) { self.0 = 0xFF; }
}
impl ConstDefault for W1 {
    const DEFAULT: Self = W1(0x33);
}
impl Default for W1 {
    fn default() -> Self { Self::DEFAULT }
}

trait FillElem: Zeroize + ConstDefault + Default + PartialEq + Clone {
    fn make(seed: u64, i: u64) -> Self;
    fn fields(&self, out: &mut Vec<u64>);
}
fn val(seed: u64, i: u64, j: u64) -> u64 { (seed * 31 + i * 7 + j * 3 + 1) % 251 + 1 }
impl FillElem for u8 {
    fn make(s: u64, i: u64) -> Self { val(s, i, 0) as u8 }
    fn fields(&self, o: &mut Vec<u64>) { o.push(*self as u64) }
}
impl FillElem for u64 {
    fn make(s: u64, i: u64) -> Self { val(s, i, 0) << 32 | val(s, i, 0) }
    fn fields(&self, o: &mut Vec<u64>) { o.push(*self) }
}
impl FillElem for [u8; 3] {
    fn make(s: u64, i: u64) -> Self { [val(s, i, 0) as u8, val(s, i, 1) as u8, val(s, i, 2) as u8] }
    fn fields(&self, o: &mut Vec<u64>) { o.extend(self.iter().map(|x| *x as u64)) }
}
impl FillElem for P2 {
    fn make(s: u64, i: u64) -> Self { P2 { a: val(s, i, 0) as u8, b: val(s, i, 1) as u8 } }
    fn fields(&self, o: &mut Vec<u64>) { o.extend([self.a as u64, self.b as u64]) }
}
impl FillElem for W1 {
    fn make(s: u64, i: u64) -> Self { W1(val(s, i, 0) as u8) }
    fn fields(&self, o: &mut Vec<u64>) { o.push(self.0 as u64) }
}
impl FillElem for Slot {
    fn make(s: u64, i: u64) -> Self { Slot { id: val(s, i, 0) as u32, wiped: val(s, i, 1) % 2 == 1, secret: val(s, i, 2) } }
    fn fields(&self, o: &mut Vec<u64>) { o.extend([self.id as u64, self.wiped as u64, self.secret]) }
}
impl FillElem for GenericArray<Slot, U3> {
    fn make(s: u64, i: u64) -> Self { GenericArray::generate(|j| Slot::make(s, 3 * i + j as u64)) }
    fn fields(&self, o: &mut Vec<u64>) { for x in self { x.fields(o) } }
}

#[repr(C)]
struct Guarded<A> { pre: [u64; 4], array: A, post: [u8; 32] }

const MODULUS: u128 = 18446744073709551557;
fn describe<T: FillElem>(s: &[T]) -> String {
    let mut all = Vec::new();
    let mut per = Vec::new();
    for x in s {
        let mut f = Vec::new();
        x.fields(&mut f);
        all.extend(f.iter().copied());
        per.push(show_nats(f).replace(',', ":"));
    }
    let mut h: u128 = 0;
    for v in &all { h = (h * 1000003 + *v as u128 + 1) % MODULUS; }
    let k = per.len();
    let head = per[..k.min(3)].join(",");
    let tail = per[k - k.min(3)..].join(",");
    format!("len={} digest={} head=[{}] tail=[{}]", k, h, head, tail)
}

/// compile-time evaluation of the associated constant for this `T`, `N`
struct K<T, N>(core::marker::PhantomData<(T, N)>);
impl<T: ConstDefault, N: ArrayLength> K<T, N> where GenericArray<T, N>: ConstDefault {
    const V: GenericArray<T, N> = GenericArray::<T, N>::const_default();
    const W: GenericArray<T, N> = <GenericArray<T, N> as ConstDefault>::DEFAULT;
}

fn go<T: FillElem, N: ArrayLength>(kv: &KV) -> String where GenericArray<T, N>: ConstDefault {
    let mut f: Vec<String> = Vec::new();
    let body = match get(kv, "op") {
        "zeroize" => {
            let seed = get_usize(kv, "seed").unwrap_or(0) as u64;
            // the array sits between two canaries on the heap: wiping it must not touch a byte outside it (C01, C19)
            let mut g: Box<Guarded<GenericArray<T, N>>> = Box::new(Guarded {
                pre: [0xA5A5_A5A5_A5A5_A5A5; 4],
                array: GenericArray::generate(|i| T::make(seed, i as u64)),
                post: [0x5A; 32],
            });
            let mut want: Vec<T> = g.array.iter().cloned().collect();
            for x in want.iter_mut() { x.zeroize(); }
            let base = &g.array as *const _ as usize;
            if g.post.as_ptr() as usize - base != core::mem::size_of::<T>() * N::USIZE { f.push("array-not-N-times-size".to_string()); }
            std::hint::black_box(&mut *g).array.zeroize();
            let g = std::hint::black_box(g);
            if g.pre != [0xA5A5_A5A5_A5A5_A5A5; 4] || g.post != [0x5A; 32] { f.push(format!("wrote-outside-array-of-{}-bytes", core::mem::size_of::<T>() * N::USIZE)); }
            let a = &g.array;
            let bad: Vec<usize> = (0..N::USIZE).filter(|i| a[*i] != want[*i]).collect();
            if !bad.is_empty() { f.push(format!("not-zeroized:{}-of-{}-first-{}", bad.len(), N::USIZE, bad[0])); }
            describe(a.as_slice())
        }
        "const_default" => {
            let a: GenericArray<T, N> = GenericArray::const_default();
            let bad: Vec<usize> = (0..N::USIZE).filter(|i| a[*i] != T::DEFAULT).collect();
            if !bad.is_empty() { f.push(format!("not-default:{}-of-{}-first-{}", bad.len(), N::USIZE, bad[0])); }
            if a != GenericArray::<T, N>::default() { f.push("differs-from-Default".to_string()); }
            if a != K::<T, N>::V || a != K::<T, N>::W { f.push("differs-from-const-eval".to_string()); }
            describe(a.as_slice())
        }
        _ => return "bad-op".to_string(),
    };
    format!("{} | orc={}", body, if f.is_empty() { "ok".to_string() } else { format!("FAIL({})", f.join(";")) })
}

fn run<N: ArrayLength>(kv: &KV) -> String
where
    GenericArray<u8, N>: ConstDefault, GenericArray<u64, N>: ConstDefault, GenericArray<[u8; 3], N>: ConstDefault,
    GenericArray<Slot, N>: ConstDefault, GenericArray<GenericArray<Slot, U3>, N>: ConstDefault, GenericArray<P2, N>: ConstDefault, GenericArray<W1, N>: ConstDefault,
{
    match get(kv, "kind") {
        "u8" => go::<u8, N>(kv),
        "u64" => go::<u64, N>(kv),
        "b3" => go::<[u8; 3], N>(kv),
        "slot" => go::<Slot, N>(kv),
        "p2" => go::<P2, N>(kv),
        "w1" => go::<W1, N>(kv),
        "nest" => go::<GenericArray<Slot, U3>, N>(kv),
        _ => "bad-op".to_string(),
    }
}

fn main() {
    serve("fill", |kv| {
        let n = get_usize(kv, "n").unwrap_or(usize::MAX);
        with_len!(n, N, run::<N>(kv), "unsupported-n".to_string();
            0 => U0, 1 => U1, 2 => U2, 3 => U3, 4 => U4, 5 => U5, 6 => U6, 7 => U7, 8 => U8, 9 => U9, 10 => U10, 11 => U11, 12 => U12, 13 => U13, 14 => U14, 15 => U15, 16 => U16, 17 => U17, 18 => U18, 19 => U19, 20 => U20, 21 => U21, 22 => U22, 23 => U23, 24 => U24, 25 => U25, 26 => U26, 27 => U27, 28 => U28, 29 => U29, 30 => U30, 31 => U31, 32 => U32, 33 => U33, 34 => U34, 35 => U35, 36 => U36, 37 => U37, 38 => U38, 39 => U39, 40 => U40, 41 => U41, 42 => U42, 43 => U43, 44 => U44, 45 => U45, 46 => U46, 47 => U47, 48 => U48, 49 => U49, 50 => U50, 51 => U51, 52 => U52, 53 => U53, 54 => U54, 55 => U55, 56 => U56, 57 => U57, 58 => U58, 59 => U59, 60 => U60, 61 => U61, 62 => U62, 63 => U63, 64 => U64, 96 => U96, 127 => U127, 128 => U128, 129 => U129, 255 => U255, 256 => U256, 257 => U257, 511 => U511, 512 => U512, 513 => U513, 1000 => U1000, 1023 => U1023, 1024 => U1024)
    });
}
