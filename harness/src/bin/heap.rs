//! Engine `heap` (C15, C16): alloc-feature operations under a recording global allocator.
//! Per scenario: every request's size/alignment, zero-size requests, releases that do not match a
//! live block with the same layout, blocks still live at the end, whether an O(1) conversion kept
//! the block, and (in a child process) what happens when the allocator fails.
use ga_harness::generic_array::functional::FunctionalSequence;
use ga_harness::generic_array::sequence::GenericSequence;
use ga_harness::generic_array::{ArrayLength, GenericArray};
use ga_harness::lens::*;
use ga_harness::*;
use std::alloc::{GlobalAlloc, Layout, System};
use std::panic::{catch_unwind, AssertUnwindSafe};
use std::sync::atomic::{AtomicBool, AtomicI64, AtomicUsize, Ordering};

const CAP: usize = 8192;
#[derive(Clone, Copy)]
struct Ev {
    kind: u8, // 0 alloc, 1 dealloc, 2 realloc(old) , 3 alloc-fail
    ptr: usize,
    size: usize,
    align: usize,
}
static mut EVENTS: [Ev; CAP] = [Ev { kind: 0, ptr: 0, size: 0, align: 0 }; CAP];
static NEV: AtomicUsize = AtomicUsize::new(0);
static RECORD: AtomicBool = AtomicBool::new(false);
static FAIL_AT: AtomicI64 = AtomicI64::new(-1);
static NREQ: AtomicI64 = AtomicI64::new(0);

fn rec(kind: u8, ptr: usize, size: usize, align: usize) {
    let i = NEV.fetch_add(1, Ordering::SeqCst);
    if i < CAP {
        unsafe { EVENTS[i] = Ev { kind, ptr, size, align } };
    }
}
fn active() -> bool {
    RECORD.load(Ordering::SeqCst) && ALLOC_PAUSE.with(|p| p.get()) == 0
}
struct Rec;
unsafe impl GlobalAlloc for Rec {
    unsafe fn alloc(&self, l: Layout) -> *mut u8 {
        if active() {
            let k = NREQ.fetch_add(1, Ordering::SeqCst);
            if k == FAIL_AT.load(Ordering::SeqCst) {
                rec(3, 0, l.size(), l.align());
                return std::ptr::null_mut();
            }
            let p = System.alloc(l);
            rec(0, p as usize, l.size(), l.align());
            p
        } else {
            System.alloc(l)
        }
    }
    unsafe fn dealloc(&self, p: *mut u8, l: Layout) {
        if active() {
            rec(1, p as usize, l.size(), l.align());
        }
        System.dealloc(p, l)
    }
    unsafe fn realloc(&self, p: *mut u8, l: Layout, new: usize) -> *mut u8 {
        if active() {
            rec(1, p as usize, l.size(), l.align());
            let q = System.realloc(p, l, new);
            rec(0, q as usize, new, l.align());
            q
        } else {
            System.realloc(p, l, new)
        }
    }
}
#[global_allocator]
static A: Rec = Rec;

fn start(fail_at: i64) {
    NEV.store(0, Ordering::SeqCst);
    NREQ.store(0, Ordering::SeqCst);
    FAIL_AT.store(fail_at, Ordering::SeqCst);
    RECORD.store(true, Ordering::SeqCst);
}
struct Summary {
    allocs: Vec<(usize, usize)>,
    frees: Vec<(usize, usize)>,
    zero_req: usize,
    mismatched: usize,
    live_end: usize,
    calls: usize,
    first: Option<(usize, usize, usize)>,        // ptr, size, align of the first request
    first_freed: usize,                          // releases of exactly that block with that layout
}
fn stop() -> Summary {
    RECORD.store(false, Ordering::SeqCst);
    let n = NEV.load(Ordering::SeqCst).min(CAP);
    let mut live: Vec<Ev> = Vec::new();
    let mut s = Summary { allocs: vec![], frees: vec![], zero_req: 0, mismatched: 0, live_end: 0, calls: n, first: None, first_freed: 0 };
    for i in 0..n {
        let e = unsafe { EVENTS[i] };
        match e.kind {
            0 | 3 => {
                if e.size == 0 {
                    s.zero_req += 1;
                }
                s.allocs.push((e.size, e.align));
                if s.first.is_none() {
                    s.first = Some((e.ptr, e.size, e.align));
                }
                if e.kind == 0 {
                    live.push(e);
                }
            }
            _ => {
                s.frees.push((e.size, e.align));
                if let Some((p, sz, al)) = s.first {
                    if p == e.ptr && sz == e.size && al == e.align && p != 0 {
                        s.first_freed += 1;
                    }
                }
                if let Some(k) = live.iter().position(|x| x.ptr == e.ptr && x.size == e.size && x.align == e.align) {
                    live.remove(k);
                } else {
                    s.mismatched += 1;
                }
            }
        }
    }
    s.live_end = live.len();
    s
}
fn fmt_la(v: &[(usize, usize)]) -> String {
    v.iter().map(|(s, a)| format!("{}:{}", s, a)).collect::<Vec<_>>().join(",")
}
fn discipline(s: &Summary) -> Vec<String> {
    let mut f = Vec::new();
    if s.zero_req > 0 {
        f.push(format!("zero-size-requests{}", s.zero_req));
    }
    if s.mismatched > 0 {
        f.push(format!("mismatched-frees{}", s.mismatched));
    }
    if s.live_end > 0 {
        f.push(format!("leaked-blocks{}", s.live_end));
    }
    f
}
fn orc(f: Vec<String>) -> String {
    if f.is_empty() { "ok".to_string() } else { format!("FAIL({})", f.join(";")) }
}

trait E: Sized + 'static {
    const SZ: usize;
    fn mk(id: u64) -> Self;
    fn eid(&self) -> u64;
    /// `GenericArray::<Self, N>::default_boxed()` for the kinds whose `Default` counts its calls
    const HAS_DEFAULT: bool = false;
    fn default_boxed<N: ArrayLength>() -> Option<Box<GenericArray<Self, N>>> { None }
}
impl E for Dc {
    const SZ: usize = 8;
    fn mk(id: u64) -> Dc { Dc(id) }
    fn eid(&self) -> u64 { self.0 }
    const HAS_DEFAULT: bool = true;
    fn default_boxed<N: ArrayLength>() -> Option<Box<GenericArray<Dc, N>>> { Some(GenericArray::default_boxed()) }
}
impl E for u32 { const SZ: usize = 4; fn mk(id: u64) -> u32 { id as u32 } fn eid(&self) -> u64 { *self as u64 } }
impl E for u64 { const SZ: usize = 8; fn mk(id: u64) -> u64 { id } fn eid(&self) -> u64 { *self } }
impl E for [u8; 3] { const SZ: usize = 3; fn mk(id: u64) -> [u8; 3] { [id as u8, 1, 2] } fn eid(&self) -> u64 { self[0] as u64 } }
impl E for () { const SZ: usize = 0; fn mk(_: u64) {} fn eid(&self) -> u64 { 0 } }
impl E for Tr {
    const SZ: usize = 8;
    fn mk(id: u64) -> Tr { Tr::new(id) }
    fn eid(&self) -> u64 { self.id }
    // (`Tr::default` reports an injected panic through the panic hook, which allocates: the generator form is used)
}
struct Z;
impl Drop for Z { fn drop(&mut self) { paused(|| log("drop:z".to_string())); } }
impl E for Z { const SZ: usize = 0; fn mk(_: u64) -> Z { Z } fn eid(&self) -> u64 { 0 } }

/// zero-sized, 8-aligned
#[repr(align(8))]
struct Z8;
impl E for Z8 { const SZ: usize = 0; fn mk(_: u64) -> Z8 { Z8 } fn eid(&self) -> u64 { 0 } }

/// zero-sized panic payload: raising it does not allocate
struct Inject;

fn call_fault(kv: &KV) -> Option<u64> {
    get(kv, "fault").strip_prefix("call:").and_then(|k| k.parse().ok())
}
fn drop_report(tracked: bool) -> String {
    // canonical: sorted ids of destructor runs (Tr) / count (Z)
    let lg = take_log();
    if !tracked { return String::new(); }
    let mut ids: Vec<String> = lg.iter().filter_map(|e| e.strip_prefix("drop:").map(|s| s.to_string())).collect();
    ids.sort_by_key(|s| s.parse::<u64>().unwrap_or(u64::MAX));
    format!(" drops=[{}]", ids.join(","))
}

fn run<T: E, N: ArrayLength>(kv: &KV, tracked: bool) -> String {
    reset();
    let op = get(kv, "op");
    let n = N::USIZE;
    let l = get_usize(kv, "l").unwrap_or(n);
    let cap = get_usize(kv, "cap").unwrap_or(l);
    let fail_at: i64 = get(kv, "fault").strip_prefix("alloc:").and_then(|k| k.parse().ok()).unwrap_or(-1);
    let bad_call = call_fault(kv);
    match op {
        "boxed_generate" | "default_boxed" => {
            start(fail_at);
            let mut ncalls = 0usize;
            // `default_boxed` proper where the element's `Default` counts its calls (Tr, Dc); the generator form otherwise
            let real_default = op == "default_boxed" && T::HAS_DEFAULT;
            if real_default {
                CLONE_CALLS.with(|c| *c.borrow_mut() = 0);
                NEXT_ID.with(|b| *b.borrow_mut() = 1000);
                BAD_CLONE.with(|b| *b.borrow_mut() = bad_call);
                paused(|| { take_log(); });
            }
            let r = catch_unwind(AssertUnwindSafe(|| {
                if real_default {
                    let b = T::default_boxed::<N>().unwrap();
                    ncalls = CLONE_CALLS.with(|c| *c.borrow()) as usize;
                    return b;
                }
                Box::<GenericArray<T, N>>::generate(|i| {
                    ncalls += 1;
                    if bad_call == Some(i as u64) {
                        std::panic::resume_unwind(Box::new(Inject));
                    }
                    T::mk(1000 + i as u64)
                })
            }));
            let mut aligned = true;
            let (res, items) = match r {
                Ok(b) => {
                    // C01 on the heap: the address the box holds is a multiple of the element alignment,
                    // also when no block was requested (N = 0, zero-sized elements)
                    aligned = (&*b as *const GenericArray<T, N> as usize) % std::mem::align_of::<T>() == 0;
                    let it: Vec<u64> = paused(|| b.iter().map(|x| x.eid()).collect());
                    drop(b);
                    ("ok", it)
                }
                Err(_) => ("panicked", vec![]),
            };
            if real_default { ncalls = CLONE_CALLS.with(|c| *c.borrow()) as usize; BAD_CLONE.with(|b| *b.borrow_mut() = None); }
            let s = stop();
            let d = drop_report(tracked);
            // the array's own block: requests / releases with exactly its layout (the panic runtime's
            // own exception object is not the crate's business)
            let lay = (n * T::SZ, std::mem::align_of::<T>());
            // (boxed generate's first allocator call, if it has the array's layout, is the array's block)
            let req = match s.first { Some((_, sz, al)) if (sz, al) == lay => 1, _ => 0 };
            let fre = if req == 1 { s.first_freed } else { 0 };
            let mut f = discipline(&s);
            if res == "ok" && ncalls != n { f.push(format!("generator-called-{}-times", ncalls)); }
            if !aligned { f.push("misaligned-box".to_string()); }
            let al = if res == "ok" { format!(" aligned={}", aligned as u8) } else { String::new() };
            if tracked {
                // every value the generator handed over is dropped exactly once (C04: also when a later call panics)
                let created = if res == "ok" { ncalls } else { ncalls.saturating_sub(1) };
                let dropped = d.matches(',').count() + if d.contains("[]") || d.is_empty() { 0 } else { 1 };
                if dropped != created { f.push(format!("generated-{}-dropped-{}", created, dropped)); }
            }
            format!("res={} items=[{}] calls={} block_req={} block_free={} zero_req={}{}{} | orc={}", res, show_nats(items), ncalls, req, fre, s.zero_req, al, d, orc(f))
        }
        "try_from_vec" | "try_from_boxed_slice" | "vec_try_into" | "box_slice_try_into" => {
            start(-1);
            let mut v: Vec<T> = Vec::with_capacity(cap.max(l));
            for i in 0..l { v.push(T::mk(1 + i as u64)); }
            let src_ptr = v.as_ptr() as usize;
            let (res, items, same): (&str, Vec<u64>, bool) = match op {
                "try_from_vec" => match GenericArray::<T, N>::try_from_vec(v) {
                    Ok(b) => { let p = b.as_ptr() as usize; let it = paused(|| b.iter().map(|x| x.eid()).collect()); drop(b); ("ok", it, p == src_ptr) }
                    Err(_) => ("err", vec![], false),
                },
                "try_from_boxed_slice" => {
                    let bs = v.into_boxed_slice();
                    let p0 = bs.as_ptr() as usize;
                    let c0 = NEV.load(Ordering::SeqCst);
                    match GenericArray::<T, N>::try_from_boxed_slice(bs) {
                        Ok(b) => { let p = b.as_ptr() as usize; let calls = NEV.load(Ordering::SeqCst) - c0; let it = paused(|| b.iter().map(|x| x.eid()).collect()); drop(b); ("ok", it, p == p0 && calls == 0) }
                        Err(_) => ("err", vec![], false),
                    }
                }
                "vec_try_into" => match GenericArray::<T, N>::try_from(v) {
                    Ok(a) => { let it = paused(|| a.iter().map(|x| x.eid()).collect()); drop(a); ("ok", it, false) }
                    Err(_) => ("err", vec![], false),
                },
                _ => {
                    let bs = v.into_boxed_slice();
                    match GenericArray::<T, N>::try_from(bs) {
                        Ok(a) => { let it = paused(|| a.iter().map(|x| x.eid()).collect()); drop(a); ("ok", it, false) }
                        Err(_) => ("err", vec![], false),
                    }
                }
            };
            let s = stop();
            let d = drop_report(tracked);
            let mut f = discipline(&s);
            let want_ok = l == n;
            let o1 = op == "try_from_boxed_slice" || (op == "try_from_vec" && cap <= l);
            if res == "ok" && o1 && !same { f.push("documented-O(1)-conversion-did-not-keep-the-block".to_string()); }
            if (res == "ok") != want_ok { f.push("length-check".to_string()); }
            if res == "ok" && items != (1..=n as u64).map(|i| T::mk(i).eid()).collect::<Vec<_>>() { f.push("contents".to_string()); }
            if tracked {
                // every element of the source is dropped exactly once, whether the conversion is accepted
                // (with the array) or rejected (with the source)
                let got: Vec<&str> = d.trim().trim_start_matches("drops=[").trim_end_matches(']').split(',').filter(|x| !x.is_empty()).collect();
                let ok_ids = if got.iter().all(|x| *x == "z") { got.len() == l } else {
                    let mut want: Vec<String> = (1..=l as u64).map(|i| i.to_string()).collect();
                    let mut have: Vec<String> = got.iter().map(|x| x.to_string()).collect();
                    want.sort(); have.sort();
                    want == have
                };
                if !ok_ids { f.push(format!("source-elements-dropped-{}-of-{}", got.len(), l)); }
            }
            let same_s = if op.starts_with("try_from") && res == "ok" && l == cap.max(l) && cap <= l { format!(" same_block={}", same as u8) } else { String::new() };
            format!("res={} items=[{}]{}{} | orc={}", res, show_nats(items), same_s, d, orc(f))
        }
        "into_boxed_slice" | "into_vec" | "from_ga_box_slice" | "from_ga_vec" | "box_into_iter" => {
            start(-1);
            let a: GenericArray<T, N> = (0..n as u64).map(|i| T::mk(1 + i)).collect();
            let b = Box::new(a);
            let p0 = b.as_ptr() as usize;
            let c0 = NEV.load(Ordering::SeqCst);
            let (items, same): (Vec<u64>, bool) = match op {
                "into_boxed_slice" => { let bs = b.into_boxed_slice(); let calls = NEV.load(Ordering::SeqCst) - c0; let it = paused(|| bs.iter().map(|x| x.eid()).collect()); let same = bs.as_ptr() as usize == p0 && calls == 0; drop(bs); (it, same) }
                "into_vec" => { let v = b.into_vec(); let calls = NEV.load(Ordering::SeqCst) - c0; let it = paused(|| v.iter().map(|x| x.eid()).collect()); let same = v.as_ptr() as usize == p0 && calls == 0 && v.len() == n; drop(v); (it, same) }
                "from_ga_box_slice" => { let b = b; let bs: Box<[T]> = (*b).into(); let it = paused(|| bs.iter().map(|x| x.eid()).collect()); drop(bs); (it, false) }
                "from_ga_vec" => { let b = b; let v: Vec<T> = (*b).into(); let it = paused(|| v.iter().map(|x| x.eid()).collect()); drop(v); (it, false) }
                _ => { let it: Vec<u64> = paused(|| Vec::new()); let mut it = it; for x in b { let e = x.eid(); paused(|| it.push(e)); } (it, false) }
            };
            let s = stop();
            let d = drop_report(tracked);
            let mut f = discipline(&s);
            if op.starts_with("into_") && !same { f.push("documented-O(1)-conversion-did-not-keep-the-block".to_string()); }
            if items != (1..=n as u64).map(|i| T::mk(i).eid()).collect::<Vec<_>>() { f.push("contents".to_string()); }
            let same_s = if op.starts_with("into_") { format!(" same_block={}", same as u8) } else { String::new() };
            format!("res=ok items=[{}]{}{} | orc={}", show_nats(items), same_s, d, orc(f))
        }
        "boxed_collect" => {
            start(fail_at);
            // the source panics on its k-th `next()` call (k may be the probe after the N-th item)
            let poll_bad: Option<u64> = get(kv, "fault").strip_prefix("poll:").and_then(|k| k.parse().ok());
            let mut polls = 0u64;
            let mut next_id = 0u64;
            let src = std::iter::from_fn(|| {
                let k = polls;
                polls += 1;
                if poll_bad == Some(k) { std::panic::resume_unwind(Box::new(Inject)); }
                if next_id < l as u64 { next_id += 1; Some(T::mk(next_id)) } else { None }
            });
            let r = catch_unwind(AssertUnwindSafe(|| GenericArray::<T, N>::try_boxed_from_iter(src)));
            let (res, items) = match r {
                Ok(Ok(b)) => { let it: Vec<u64> = paused(|| b.iter().map(|x| x.eid()).collect()); drop(b); ("ok", it) }
                Ok(Err(_)) => ("err", vec![]),
                Err(_) => ("panicked", vec![]),
            };
            let s = stop();
            let d = drop_report(tracked);
            let mut f = discipline(&s);
            if res != "panicked" && (res == "ok") != (l == n) { f.push("length-check".to_string()); }
            // C07: at most N + 1 items are pulled, whatever the element type's size (a zero-sized one has an unbounded Vec capacity)
            if polls > n as u64 + 1 { f.push(format!("over-polled-{}-of-at-most-{}", polls, n + 1)); }
            format!("res={} items=[{}] polls={}{} | orc={}", res, show_nats(items), polls, d, orc(f))
        }
        "box_map" | "box_zip" => {
            start(-1);
            let a: Box<GenericArray<T, N>> = Box::new((0..n as u64).map(|i| T::mk(1 + i)).collect());
            let mut b2: Option<Box<GenericArray<T, N>>> = if op == "box_zip" { Some(Box::new((0..n as u64).map(|i| T::mk(101 + i)).collect())) } else { None };
            let mut k = 0u64;
            let r = catch_unwind(AssertUnwindSafe(|| {
                if op == "box_map" {
                    a.map(|x| { let i = k; k += 1; if bad_call == Some(i) { std::panic::resume_unwind(Box::new(Inject)); } drop(x); T::mk(1000 + i) })
                } else {
                    a.zip(b2.take().unwrap(), |x, y| { let i = k; k += 1; if bad_call == Some(i) { std::panic::resume_unwind(Box::new(Inject)); } drop((x, y)); T::mk(1000 + i) })
                }
            }));
            let (res, items) = match r {
                Ok(b) => { let it: Vec<u64> = paused(|| b.iter().map(|x| x.eid()).collect()); drop(b); ("ok", it) }
                Err(_) => ("panicked", vec![]),
            };
            let s = stop();
            let d = drop_report(tracked);
            let f = discipline(&s);
            format!("res={} items=[{}]{} | orc={}", res, show_nats(items), d, orc(f))
        }
        _ => "bad-op".to_string(),
    }
}

fn by_len<T: E>(kv: &KV, tracked: bool) -> String {
    let n = get_usize(kv, "n").unwrap_or(usize::MAX);
    with_len!(n, N, run::<T, N>(kv, tracked), "unsupported-n".to_string();
        0 => U0, 1 => U1, 2 => U2, 3 => U3, 4 => U4, 5 => U5, 7 => U7, 8 => U8, 16 => U16, 17 => U17, 33 => U33, 256 => U256, 1024 => U1024)
}

/// multi-MiB arrays built on a thread with a 256 KiB stack
fn big(kv: &KV) -> String {
    type Big = U1048576; // 4 MiB of u32
    let op = get(kv, "op").to_string();
    let h = std::thread::Builder::new().stack_size(256 * 1024).spawn(move || {
        let ok = match op.as_str() {
            "big_default_boxed" => { let b = GenericArray::<u32, Big>::default_boxed(); b[12345] == 0 && b.len() == 1048576 }
            "big_boxed_generate" => { let b = Box::<GenericArray<u32, Big>>::generate(|i| i as u32); b[12345] == 12345 }
            "big_box_arr" => { let b = ga_harness::generic_array::box_arr![7u32; Big]; b[1048575] == 7 }
            "big_boxed_collect" => { let b: Box<GenericArray<u32, Big>> = (0..1048576u32).collect(); b[99] == 99 }
            // few, very large elements: the element *count* is small, the array is not (512 KiB / 256 KiB)
            "big_elems_boxed_generate" => {
                let b = Box::<GenericArray<GenericArray<u8, U16384>, U32>>::generate(|i| GenericArray::generate(|_| i as u8));
                b[31][16383] == 31 && b[0][0] == 0
            }
            "big_elems_default_boxed" => { let b = GenericArray::<GenericArray<u8, U16384>, U32>::default_boxed(); b[31][16383] == 0 }
            "big_elems16_boxed_generate" => {
                let b = Box::<GenericArray<GenericArray<u8, U16384>, U16>>::generate(|i| GenericArray::generate(|_| i as u8));
                b[15][16383] == 15
            }
            "big_elems_box_map" => {
                let b = GenericArray::<GenericArray<u8, U16384>, U32>::default_boxed();
                let c = b.map(|mut x| { x[1] = 7; x });
                c[31][1] == 7 && c[0][0] == 0
            }
            "big_into_vec" => { let b = GenericArray::<u32, Big>::default_boxed(); let v = b.into_vec(); v.len() == 1048576 }
            _ => false,
        };
        ok
    });
    match h.map(|h| h.join()) {
        Ok(Ok(true)) => "res=ok | orc=ok".to_string(),
        Ok(Ok(false)) => "res=wrong | orc=FAIL(contents)".to_string(),
        _ => "res=panicked | orc=FAIL(panic)".to_string(),
    }
}

fn answer(kv: &KV) -> String {
    if get(kv, "op").starts_with("big_") {
        return big(kv);
    }
    match get(kv, "kind") {
        "u32" => by_len::<u32>(kv, false),
        "u64" => by_len::<u64>(kv, false),
        "b3" => by_len::<[u8; 3]>(kv, false),
        "unit" => by_len::<()>(kv, false),
        "tr" => by_len::<Tr>(kv, true),
        "dc" => by_len::<Dc>(kv, false),
        "z" => by_len::<Z>(kv, true),
        "z8" => by_len::<Z8>(kv, false),
        _ => "bad-kind".to_string(),
    }
}

fn main() {
    let args: Vec<String> = std::env::args().collect();
    if args.len() >= 3 && args[1] == "--child" {
        std::panic::set_hook(Box::new(|_| {}));
        let (_, _, kv) = parse_line(&format!("0 heap {}", args[2])).unwrap();
        println!("{}", answer(&kv));
        return;
    }
    serve("heap", |kv| {
        let needs_child = get(kv, "fault").starts_with("alloc:") || get(kv, "op").starts_with("big_");
        if !needs_child {
            return match catch_unwind(AssertUnwindSafe(|| answer(kv))) {
                Ok(s) => s,
                Err(p) => format!("{} | orc=FAIL(panic)", panic_class(&*p)),
            };
        }
        // allocation failure / stack exhaustion end the process: observe them from outside
        let line: Vec<String> = { let mut v: Vec<String> = kv.iter().map(|(k, v)| format!("{}={}", k, v)).collect(); v.sort(); v };
        let out = std::process::Command::new(std::env::current_exe().unwrap()).arg("--child").arg(line.join(" ")).output();
        match out {
            Ok(o) => {
                if o.status.success() {
                    String::from_utf8_lossy(&o.stdout).trim().to_string()
                } else {
                    use std::os::unix::process::ExitStatusExt;
                    let err = String::from_utf8_lossy(&o.stderr);
                    let err = format!("{} signal={:?}", err, o.status.signal());
                    let class = if err.contains("memory allocation of") { "alloc_error" } else if err.contains("signal=Some(11)") { "segv" } else if err.contains("overflowed its stack") { "stack_overflow" } else { "other" };
                    let good = class == "alloc_error" && get(kv, "fault").starts_with("alloc:");
                    // anything but the standard allocation-error path: the null / invalid block was used
                    let shown = if class == "alloc_error" { "alloc_error" } else { "ub" };
                    format!("res=abort({}) | orc={}", shown, if good { "ok".to_string() } else { format!("FAIL({})", class) })
                }
            }
            Err(_) => "child-spawn-failed | orc=FAIL(spawn)".to_string(),
        }
    });
}
