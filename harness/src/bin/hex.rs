//! Engine `hex` (C14): `{:x}` / `{:X}` of `GenericArray<u8, N>` with every precision; oracle: the
//! per-byte `{:02x}` string truncated.  Built twice: without and with the `faster-hex` feature.
use ga_harness::generic_array::GenericArray;
use ga_harness::lens::*;
use ga_harness::*;
use std::fmt::Write;

fn byte(i: usize, a: usize, b: usize) -> u8 {
    ((i * a + b + i / 251) % 256) as u8
}

macro_rules! go {
    ($N:ty, $n:expr, $kv:expr) => {{
        let a = get_usize($kv, "a").unwrap_or(1);
        let b = get_usize($kv, "b").unwrap_or(1);
        let upper = get($kv, "upper") == "1";
        let arr: GenericArray<u8, $N> = (0..$n).map(|i| byte(i, a, b)).collect();
        let prec = get($kv, "prec");
        let s = match (upper, prec.parse::<usize>()) {
            (false, Ok(p)) => format!("{:.*x}", p, arr),
            (true, Ok(p)) => format!("{:.*X}", p, arr),
            (false, Err(_)) => format!("{:x}", arr),
            (true, Err(_)) => format!("{:X}", arr),
        };
        let mut want = String::new();
        for x in arr.iter() {
            if upper { write!(want, "{:02X}", x).unwrap(); } else { write!(want, "{:02x}", x).unwrap(); }
        }
        if let Ok(p) = prec.parse::<usize>() {
            want.truncate(p.min(want.len()));
        }
        let ok = s == want;
        // long outputs are reported by digest to keep lines short; the model does the same
        let shown = if s.len() > 80 { format!("len{}:{}:{}:{:08x}", s.len(), &s[..24], &s[s.len() - 24..], fnv(&s)) } else { s.clone() };
        let shown: String = shown.chars().map(|c| if c.is_ascii_graphic() { c.to_string() } else { format!("\\x{:02x}", c as u32) }).collect();
        format!("out={} | orc={}", shown, if ok { "ok".to_string() } else { "FAIL(format)".to_string() })
    }};
}
fn fnv(s: &str) -> u32 {
    let mut h: u32 = 0x811c9dc5;
    for b in s.bytes() {
        h ^= b as u32;
        h = h.wrapping_mul(16777619);
    }
    h
}

fn main() {
    serve("hex", |kv| {
        let n = get_usize(kv, "n").unwrap_or(usize::MAX);
        match n {
            0 => go!(U0, 0, kv), 1 => go!(U1, 1, kv), 2 => go!(U2, 2, kv), 3 => go!(U3, 3, kv), 4 => go!(U4, 4, kv),
            5 => go!(U5, 5, kv), 6 => go!(U6, 6, kv), 7 => go!(U7, 7, kv), 8 => go!(U8, 8, kv), 9 => go!(U9, 9, kv),
            10 => go!(U10, 10, kv), 11 => go!(U11, 11, kv), 12 => go!(U12, 12, kv), 13 => go!(U13, 13, kv),
            14 => go!(U14, 14, kv), 15 => go!(U15, 15, kv), 16 => go!(U16, 16, kv), 17 => go!(U17, 17, kv),
            31 => go!(U31, 31, kv), 32 => go!(U32, 32, kv), 33 => go!(U33, 33, kv),
            1023 => go!(U1023, 1023, kv), 1024 => go!(U1024, 1024, kv), 1025 => go!(U1025, 1025, kv),
            2047 => go!(U2047, 2047, kv), 2048 => go!(U2048, 2048, kv), 2049 => go!(U2049, 2049, kv),
            3000 => go!(U3000, 3000, kv), 4096 => go!(U4096, 4096, kv),
            _ => "unsupported-n".to_string(),
        }
    });
}
