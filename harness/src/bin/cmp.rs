//! Engine `cmp` (C13): `==`, `partial_cmp`, `cmp`, the comparison operators, `Hash`, `Debug` under
//! format flags and map lookups through `Borrow<[T]>`, each observed on the real `GenericArray`
//! and judged against the slice of the same elements.
use ga_harness::generic_array::typenum::U2;
use ga_harness::generic_array::{ArrayLength, GenericArray};
use ga_harness::*;
use std::cmp::Ordering;
use std::collections::{BTreeMap, HashMap};
use std::fmt::Debug;
use std::hash::{Hash, Hasher};

trait CmpElem: PartialOrd + Debug + Clone {
    fn parse(s: &str) -> Option<Self>;
}
impl CmpElem for u8 {
    fn parse(s: &str) -> Option<Self> { s.parse().ok() }
}
impl CmpElem for i32 {
    fn parse(s: &str) -> Option<Self> { s.parse().ok() }
}
impl CmpElem for f64 {
    fn parse(s: &str) -> Option<Self> {
        Some(match s {
            "nan" => f64::NAN,
            "inf" => f64::INFINITY,
            "ninf" => f64::NEG_INFINITY,
            "nz" => -0.0,
            _ => s.parse::<i64>().ok()? as f64 / 4.0,
        })
    }
}
impl CmpElem for String {
    fn parse(s: &str) -> Option<Self> {
        if s == "-" { return Some(String::new()); }
        let b: Option<Vec<u8>> = (0..s.len() / 2).map(|i| u8::from_str_radix(&s[2 * i..2 * i + 2], 16).ok()).collect();
        String::from_utf8(b?).ok()
    }
}
impl<T: CmpElem> CmpElem for GenericArray<T, U2> {
    fn parse(s: &str) -> Option<Self> {
        let v: Option<Vec<T>> = s.split(':').map(T::parse).collect();
        GenericArray::try_from_iter(v?).ok()
    }
}

fn parse_arr<T: CmpElem, N: ArrayLength>(s: &str) -> Option<GenericArray<T, N>> {
    let v: Option<Vec<T>> = if s == "_" { Some(vec![]) } else { s.split(',').map(T::parse).collect() };
    GenericArray::try_from_iter(v?).ok()
}

fn ord(o: Ordering) -> &'static str {
    match o { Ordering::Less => "lt", Ordering::Equal => "eq", Ordering::Greater => "gt" }
}
fn pord(o: Option<Ordering>) -> &'static str { o.map_or("none", ord) }
fn b(x: bool) -> u8 { x as u8 }

/// records what a hasher is fed: `L<n>` for `write_usize` (the length prefix), hex for bytes
#[derive(Default)]
struct Rec(Vec<String>);
impl Hasher for Rec {
    fn finish(&self) -> u64 { 0 }
    fn write(&mut self, bytes: &[u8]) { for x in bytes { self.0.push(format!("{:02x}", x)); } }
    fn write_usize(&mut self, i: usize) { self.0.push(format!("L{}", i)); }
}
fn stream<T: Hash + ?Sized>(v: &T) -> String {
    let mut r = Rec::default();
    v.hash(&mut r);
    if r.0.is_empty() { "-".to_string() } else { r.0.join(",") }
}
fn std_hash<T: Hash + ?Sized>(v: &T) -> u64 {
    let mut h = std::collections::hash_map::DefaultHasher::new();
    v.hash(&mut h);
    h.finish()
}

fn fmt_with<T: Debug + ?Sized>(name: &str, v: &T) -> Option<String> {
    Some(match name {
        "d" => format!("{:?}", v),
        "alt" => format!("{:#?}", v),
        "w5" => format!("{:5?}", v),
        "l5" => format!("{:<5?}", v),
        "c7" => format!("{:^7?}", v),
        "plus" => format!("{:+?}", v),
        "z5" => format!("{:05?}", v),
        "x" => format!("{:x?}", v),
        "X" => format!("{:X?}", v),
        "ax" => format!("{:#x?}", v),
        "p1" => format!("{:.1?}", v),
        "w8p3" => format!("{:8.3?}", v),
        "plusp2" => format!("{:+.2?}", v),
        "altp1" => format!("{:#.1?}", v),
        "fill" => format!("{:*>6?}", v),
        _ => return None,
    })
}
fn hex(s: &str) -> String {
    if s.is_empty() { "-".to_string() } else { s.bytes().map(|x| format!("{:02x}", x)).collect() }
}
fn orc(f: Vec<&str>) -> String {
    if f.is_empty() { "ok".to_string() } else { format!("FAIL({})", f.join(";")) }
}

fn cmp_op<T: CmpElem, N: ArrayLength>(kv: &KV, total: Option<fn(&GenericArray<T, N>, &GenericArray<T, N>) -> (Ordering, Ordering)>) -> String {
    let (Some(a), Some(bb)) = (parse_arr::<T, N>(get(kv, "a")), parse_arr::<T, N>(get(kv, "b"))) else { return "bad-op".to_string() };
    let same = get(kv, "same") == "1";
    let (x, y): (&GenericArray<T, N>, &GenericArray<T, N>) = if same { (&a, &a) } else { (&a, &bb) };
    let (sx, sy): (&[T], &[T]) = (x.as_slice(), y.as_slice());
    let mut f = Vec::new();
    let (eq, ne, pc) = (x == y, x != y, x.partial_cmp(y));
    let (lt, le, gt, ge) = (x < y, x <= y, x > y, x >= y);
    if eq != (sx == sy) { f.push("eq"); }
    if ne != (sx != sy) { f.push("ne"); }
    if pc != sx.partial_cmp(sy) { f.push("partial_cmp"); }
    if (lt, le, gt, ge) != (sx < sy, sx <= sy, sx > sy, sx >= sy) { f.push("operators"); }
    let c = match total {
        Some(g) => { let (ca, cs) = g(x, y); if ca != cs { f.push("cmp"); } ord(ca) }
        None => "-",
    };
    format!("eq={} ne={} pcmp={} lt={} le={} gt={} ge={} cmp={} | orc={}", b(eq), b(ne), pord(pc), b(lt), b(le), b(gt), b(ge), c, orc(f))
}
fn total<T: CmpElem + Ord, N: ArrayLength>(x: &GenericArray<T, N>, y: &GenericArray<T, N>) -> (Ordering, Ordering) {
    (x.cmp(y), x.as_slice().cmp(y.as_slice()))
}

/// records the exact sequence of `Hasher` method calls (method and argument): "feeds a hasher
/// exactly what hashing its slice feeds it" includes the call boundaries, which word-at-a-time
/// hashers (FxHash style) are sensitive to
#[derive(Default)]
struct Calls(Vec<String>);
impl Hasher for Calls {
    fn finish(&self) -> u64 { 0 }
    fn write(&mut self, bytes: &[u8]) { self.0.push(format!("w[{}]", bytes.iter().map(|x| format!("{:02x}", x)).collect::<String>())); }
    fn write_u8(&mut self, i: u8) { self.0.push(format!("u8:{}", i)); }
    fn write_u16(&mut self, i: u16) { self.0.push(format!("u16:{}", i)); }
    fn write_u32(&mut self, i: u32) { self.0.push(format!("u32:{}", i)); }
    fn write_u64(&mut self, i: u64) { self.0.push(format!("u64:{}", i)); }
    fn write_u128(&mut self, i: u128) { self.0.push(format!("u128:{}", i)); }
    fn write_usize(&mut self, i: usize) { self.0.push(format!("usize:{}", i)); }
    fn write_i8(&mut self, i: i8) { self.0.push(format!("i8:{}", i)); }
    fn write_i16(&mut self, i: i16) { self.0.push(format!("i16:{}", i)); }
    fn write_i32(&mut self, i: i32) { self.0.push(format!("i32:{}", i)); }
    fn write_i64(&mut self, i: i64) { self.0.push(format!("i64:{}", i)); }
    fn write_i128(&mut self, i: i128) { self.0.push(format!("i128:{}", i)); }
    fn write_isize(&mut self, i: isize) { self.0.push(format!("isize:{}", i)); }
}
fn calls<T: Hash + ?Sized>(v: &T) -> Vec<String> {
    let mut r = Calls::default();
    v.hash(&mut r);
    r.0
}
/// a word-at-a-time hasher in the FxHash style: its result depends on how the bytes are split into calls
#[derive(Default)]
struct Fx(u64);
impl Fx {
    fn add(&mut self, w: u64) { self.0 = (self.0.rotate_left(5) ^ w).wrapping_mul(0x51_7c_c1_b7_27_22_0a_95); }
}
impl Hasher for Fx {
    fn finish(&self) -> u64 { self.0 }
    fn write(&mut self, bytes: &[u8]) {
        for c in bytes.chunks(8) {
            let mut w = [0u8; 8];
            w[..c.len()].copy_from_slice(c);
            self.add(u64::from_le_bytes(w));
        }
    }
    fn write_u8(&mut self, i: u8) { self.add(i as u64); }
    fn write_u16(&mut self, i: u16) { self.add(i as u64); }
    fn write_u32(&mut self, i: u32) { self.add(i as u64); }
    fn write_u64(&mut self, i: u64) { self.add(i); }
    fn write_usize(&mut self, i: usize) { self.add(i as u64); }
}
fn fx_hash<T: Hash + ?Sized>(v: &T) -> u64 {
    let mut h = Fx::default();
    v.hash(&mut h);
    h.finish()
}

fn hash_op<T: CmpElem + Hash, N: ArrayLength>(kv: &KV) -> String {
    let Some(a) = parse_arr::<T, N>(get(kv, "a")) else { return "bad-op".to_string() };
    let mut f = Vec::new();
    let s = stream(&a);
    if s != stream(a.as_slice()) { f.push("stream"); }
    if calls(&a) != calls(a.as_slice()) { f.push("hasher-call-sequence"); }
    if fx_hash(&a) != fx_hash(a.as_slice()) { f.push("word-hasher"); }
    if std_hash(&a) != std_hash(a.as_slice()) { f.push("default-hasher"); }
    format!("stream={} | orc={}", s, orc(f))
}

fn dbg_op<T: CmpElem, N: ArrayLength>(kv: &KV) -> String {
    let Some(a) = parse_arr::<T, N>(get(kv, "a")) else { return "bad-op".to_string() };
    let Some(out) = fmt_with(get(kv, "flags"), &a) else { return "bad-op".to_string() };
    let mut f = Vec::new();
    if Some(&out) != fmt_with(get(kv, "flags"), a.as_slice()).as_ref() { f.push("debug"); }
    format!("out={} | orc={}", hex(&out), orc(f))
}

fn map_op<T: CmpElem + Hash + Ord, N: ArrayLength>(kv: &KV) -> String {
    let keys: Option<Vec<GenericArray<T, N>>> = get(kv, "keys").split('|').map(parse_arr::<T, N>).collect();
    let (Some(keys), Some(q)) = (keys, parse_arr::<T, N>(get(kv, "q"))) else { return "bad-op".to_string() };
    let mut hm: HashMap<GenericArray<T, N>, usize> = HashMap::new();
    let mut bm: BTreeMap<GenericArray<T, N>, usize> = BTreeMap::new();
    for (i, k) in keys.iter().enumerate() {
        hm.entry(k.clone()).or_insert(i);
        bm.entry(k.clone()).or_insert(i);
    }
    let qs: &[T] = q.as_slice();
    let (h, bt) = (hm.get(qs).copied(), bm.get(qs).copied());
    let want = keys.iter().position(|k| k.as_slice() == qs);
    let mut f = Vec::new();
    if h != want { f.push("hashmap-lookup-by-slice"); }
    if bt != want { f.push("btreemap-lookup-by-slice"); }
    if hm.get(&q).copied() != want { f.push("hashmap-lookup-by-array"); }
    let sh = |o: Option<usize>| o.map_or("none".to_string(), |i| i.to_string());
    format!("hget={} bget={} | orc={}", sh(h), sh(bt), orc(f))
}

fn run<N: ArrayLength>(kv: &KV) -> String {
    type Ni = GenericArray<i32, U2>;
    type Nf = GenericArray<f64, U2>;
    match (get(kv, "op"), get(kv, "kind")) {
        ("cmp", "u8") => cmp_op::<u8, N>(kv, Some(total)),
        ("cmp", "i32") => cmp_op::<i32, N>(kv, Some(total)),
        ("cmp", "f64") => cmp_op::<f64, N>(kv, None),
        ("cmp", "str") => cmp_op::<String, N>(kv, Some(total)),
        ("cmp", "nesti") => cmp_op::<Ni, N>(kv, Some(total)),
        ("cmp", "nestf") => cmp_op::<Nf, N>(kv, None),
        ("hash", "u8") => hash_op::<u8, N>(kv),
        ("hash", "i32") => hash_op::<i32, N>(kv),
        ("hash", "str") => hash_op::<String, N>(kv),
        ("hash", "nesti") => hash_op::<Ni, N>(kv),
        ("dbg", "u8") => dbg_op::<u8, N>(kv),
        ("dbg", "i32") => dbg_op::<i32, N>(kv),
        ("dbg", "f64") => dbg_op::<f64, N>(kv),
        ("dbg", "str") => dbg_op::<String, N>(kv),
        ("dbg", "nesti") => dbg_op::<Ni, N>(kv),
        ("dbg", "nestf") => dbg_op::<Nf, N>(kv),
        ("map", "u8") => map_op::<u8, N>(kv),
        ("map", "i32") => map_op::<i32, N>(kv),
        ("map", "str") => map_op::<String, N>(kv),
        ("map", "nesti") => map_op::<Ni, N>(kv),
        _ => "bad-op".to_string(),
    }
}

fn main() {
    serve("cmp", |kv| {
        let n = get_usize(kv, "n").unwrap_or(usize::MAX);
        with_len!(n, N, run::<N>(kv), "unsupported-n".to_string();
            0 => U0, 1 => U1, 2 => U2, 3 => U3, 4 => U4, 8 => U8, 16 => U16, 33 => U33, 100 => U100)
    });
}
