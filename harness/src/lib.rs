//! Shared pieces of the correspondence harness: key=value scenario lines, drop-tracked element
//! types with a thread-local event log, and the length-lattice dispatch macro.
#![allow(clippy::all)]
pub use generic_array;
pub use generic_array::typenum;

use std::cell::RefCell;
use std::collections::HashMap;
use std::io::{self, BufRead, Write};

pub type KV = HashMap<String, String>;

pub fn parse_line(line: &str) -> Option<(String, String, KV)> {
    let mut it = line.split_whitespace();
    let seq = it.next()?.to_string();
    let engine = it.next()?.to_string();
    let mut kv = KV::new();
    for t in it {
        if let Some((k, v)) = t.split_once('=') {
            kv.insert(k.to_string(), v.to_string());
        }
    }
    Some((seq, engine, kv))
}

pub fn get<'a>(kv: &'a KV, k: &str) -> &'a str {
    kv.get(k).map(|s| s.as_str()).unwrap_or("")
}
pub fn get_usize(kv: &KV, k: &str) -> Option<usize> {
    kv.get(k).and_then(|s| s.parse().ok())
}
pub fn show_nats<I: IntoIterator<Item = u64>>(l: I) -> String {
    l.into_iter().map(|x| x.to_string()).collect::<Vec<_>>().join(",")
}
pub fn show_opt(o: Option<u64>) -> String {
    match o {
        Some(x) => format!("some({})", x),
        None => "none".to_string(),
    }
}

/// Run `f` on every stdin line whose engine name is `engine`; print `<seq> <answer>`.
/// Panics inside `f` are caught and reported as `panic(<message class>)`.
pub fn serve<F: FnMut(&KV) -> String>(engine: &str, mut f: F) {
    std::panic::set_hook(Box::new(|_| {}));
    let stdin = io::stdin();
    let stdout = io::stdout();
    let mut out = io::BufWriter::new(stdout.lock());
    let flush_each = std::env::var("GA_FLUSH").is_ok();
    for line in stdin.lock().lines() {
        let line = match line {
            Ok(l) => l,
            Err(_) => break,
        };
        if line.trim().is_empty() {
            continue;
        }
        let Some((seq, eng, kv)) = parse_line(&line) else {
            writeln!(out, "bad-line").unwrap();
            continue;
        };
        if eng != engine {
            writeln!(out, "{} bad-engine", seq).unwrap();
            continue;
        }
        let ans = f(&kv);
        writeln!(out, "{} {}", seq, ans).unwrap();
        if flush_each {
            // under Miri a UB report ends the process: the last answered line identifies the scenario
            out.flush().unwrap();
        }
    }
    out.flush().unwrap();
}

pub fn panic_class(p: &(dyn std::any::Any + Send)) -> String {
    let msg = if let Some(s) = p.downcast_ref::<&str>() {
        s.to_string()
    } else if let Some(s) = p.downcast_ref::<String>() {
        s.clone()
    } else {
        "?".to_string()
    };
    let class = if msg.starts_with("inject:") {
        msg.clone()
    } else if msg.contains("expected") && msg.contains("items") {
        "from_iter_len".to_string()
    } else if msg.contains("Index out of bounds") {
        "index_oob".to_string()
    } else if msg.contains("slice.len() != N") {
        "slice_len".to_string()
    } else if msg.contains("must be non-zero") {
        "n_zero".to_string()
    } else if msg.contains("index out of bounds") || msg.contains("out of range") {
        "oob".to_string()
    } else if msg.contains("Size mismatch") {
        "size_mismatch".to_string()
    } else {
        // one answer per line: a multi-line message (assert_eq! prints left/right on their own lines) must not
        // split the answer, or the oracle verdict after it is lost
        format!("other:{}", msg.split_whitespace().collect::<Vec<_>>().join("_"))
    };
    format!("panic({})", class)
}

// ---------------------------------------------------------------------------------------------
// Event log + tracked elements
// ---------------------------------------------------------------------------------------------

thread_local! {
    pub static LOG: RefCell<Vec<String>> = RefCell::new(Vec::new());
    /// id whose destructor panics (once)
    pub static BAD_DROP: RefCell<Option<u64>> = RefCell::new(None);
    /// clone call index that panics
    pub static BAD_CLONE: RefCell<Option<u64>> = RefCell::new(None);
    pub static CLONE_CALLS: RefCell<u64> = RefCell::new(0);
    pub static NEXT_ID: RefCell<u64> = RefCell::new(1000);
}

thread_local! {
    /// > 0 while the harness itself allocates (event log etc.): a recording allocator skips these
    pub static ALLOC_PAUSE: std::cell::Cell<u32> = const { std::cell::Cell::new(0) };
}
pub fn paused<R>(f: impl FnOnce() -> R) -> R {
    ALLOC_PAUSE.with(|p| p.set(p.get() + 1));
    let r = f();
    ALLOC_PAUSE.with(|p| p.set(p.get() - 1));
    r
}
pub fn log(s: String) {
    paused(|| LOG.with(|l| l.borrow_mut().push(s)));
}
/// log a formatted event without the formatting itself being seen by a recording allocator
#[macro_export]
macro_rules! logf {
    ($($arg:tt)*) => { $crate::paused(|| $crate::log(format!($($arg)*))) };
}
pub fn take_log() -> Vec<String> {
    LOG.with(|l| std::mem::take(&mut *l.borrow_mut()))
}
pub fn reset() {
    take_log();
    BAD_DROP.with(|b| *b.borrow_mut() = None);
    BAD_CLONE.with(|b| *b.borrow_mut() = None);
    CLONE_CALLS.with(|b| *b.borrow_mut() = 0);
    NEXT_ID.with(|b| *b.borrow_mut() = 1000);
}
pub fn fresh_id() -> u64 {
    NEXT_ID.with(|b| {
        let mut b = b.borrow_mut();
        let v = *b;
        *b += 1;
        v
    })
}

/// Identity-carrying element: no heap payload, so a double drop is observable and harmless.
#[derive(Debug)]
pub struct Tr {
    pub id: u64,
}
impl Tr {
    pub fn new(id: u64) -> Tr {
        Tr { id }
    }
}
impl Drop for Tr {
    fn drop(&mut self) {
        logf!("drop:{}", self.id);
        let bad = BAD_DROP.with(|b| {
            let mut b = b.borrow_mut();
            if *b == Some(self.id) {
                *b = None;
                true
            } else {
                false
            }
        });
        if bad {
            panic!("inject:dtor:{}", self.id);
        }
    }
}
impl Clone for Tr {
    fn clone(&self) -> Tr {
        let k = CLONE_CALLS.with(|c| {
            let mut c = c.borrow_mut();
            let v = *c;
            *c += 1;
            v
        });
        let bad = BAD_CLONE.with(|b| *b.borrow() == Some(k));
        if bad {
            logf!("l{}:{}", k, self.id);
            logf!("panic:{}", k);
            panic!("inject:clone:{}", k);
        }
        let id = fresh_id();
        logf!("clone:{}:{}>{}", k, self.id, id);
        Tr { id }
    }
}
impl Default for Tr {
    fn default() -> Tr {
        let k = CLONE_CALLS.with(|c| {
            let mut c = c.borrow_mut();
            let v = *c;
            *c += 1;
            v
        });
        let bad = BAD_CLONE.with(|b| *b.borrow() == Some(k));
        if bad {
            logf!("panic:{}", k);
            panic!("inject:default:{}", k);
        }
        let id = fresh_id();
        logf!("take:{}:{}", k, id);
        Tr { id }
    }
}

/// Plain element: identity-carrying, `Clone` observable, but no destructor (`needs_drop` is false).
#[derive(Debug)]
pub struct Pl {
    pub id: u64,
}
impl Clone for Pl {
    fn clone(&self) -> Pl {
        let k = CLONE_CALLS.with(|c| {
            let mut c = c.borrow_mut();
            let v = *c;
            *c += 1;
            v
        });
        let bad = BAD_CLONE.with(|b| *b.borrow() == Some(k));
        if bad {
            logf!("l{}:{}", k, self.id);
            logf!("panic:{}", k);
            panic!("inject:clone:{}", k);
        }
        let id = fresh_id();
        logf!("clone:{}:{}>{}", k, self.id, id);
        Pl { id }
    }
}

/// element kinds the engines are generic over
pub trait Elem: Sized + Clone {
    const NEEDS_DROP: bool;
    fn mk(id: u64) -> Self;
    fn eid(&self) -> u64;
}
impl Elem for Tr {
    const NEEDS_DROP: bool = true;
    fn mk(id: u64) -> Tr {
        Tr { id }
    }
    fn eid(&self) -> u64 {
        self.id
    }
}
impl Elem for Pl {
    const NEEDS_DROP: bool = false;
    fn mk(id: u64) -> Pl {
        Pl { id }
    }
    fn eid(&self) -> u64 {
        self.id
    }
}

/// zero-sized panic payload
pub struct InjectZ;

/// Plain data (no drop glue) whose `Default` is not a constant: every call is counted, numbered and can be
/// made to panic, like `Tr`'s.
#[derive(Clone, Copy, Debug, PartialEq)]
pub struct Dc(pub u64);
impl Default for Dc {
    fn default() -> Dc {
        let k = CLONE_CALLS.with(|c| {
            let mut c = c.borrow_mut();
            let v = *c;
            *c += 1;
            v
        });
        if BAD_CLONE.with(|b| *b.borrow() == Some(k)) {
            // zero-sized payload, no panic hook: raising it does not allocate
            std::panic::resume_unwind(Box::new(InjectZ));
        }
        Dc(fresh_id())
    }
}

/// Zero-sized drop-tracked element (counts drops only).
pub struct TrZ;
impl Drop for TrZ {
    fn drop(&mut self) {
        log("drop:z".to_string());
    }
}

/// Length types: typenum's named constants plus the ones it does not name.
pub mod lens {
    pub use crate::typenum::consts::*;
    use crate::typenum::operator_aliases::{Add1, Sum};
    pub type U1025 = Add1<U1024>;
    pub type U2049 = Add1<U2048>;
    pub type U2047 = crate::typenum::operator_aliases::Sub1<U2048>;
    pub type U3000 = Sum<Sum<U1000, U1000>, U1000>;
}

/// Dispatch a run-time length to a typenum type.
#[macro_export]
macro_rules! with_len {
    ($n:expr, $N:ident, $body:expr, $other:expr; $($k:literal => $U:ident),* $(,)?) => {
        match $n {
            $($k => { type $N = $crate::lens::$U; $body })*
            _ => $other,
        }
    };
}

/// The standard length lattice.
#[macro_export]
macro_rules! with_lattice {
    ($n:expr, $N:ident, $body:expr, $other:expr) => {
        $crate::with_len!($n, $N, $body, $other;
            0 => U0, 1 => U1, 2 => U2, 3 => U3, 4 => U4, 5 => U5, 6 => U6, 7 => U7, 8 => U8,
            9 => U9, 10 => U10, 11 => U11, 12 => U12, 15 => U15, 16 => U16, 17 => U17,
            31 => U31, 32 => U32, 33 => U33, 64 => U64, 97 => U97, 255 => U255, 256 => U256,
            1023 => U1023, 1024 => U1024, 1025 => U1025)
    };
}

/// Small lattice (0..=8) for exhaustive engines.
#[macro_export]
macro_rules! with_small {
    ($n:expr, $N:ident, $body:expr, $other:expr) => {
        $crate::with_len!($n, $N, $body, $other;
            0 => U0, 1 => U1, 2 => U2, 3 => U3, 4 => U4, 5 => U5, 6 => U6, 7 => U7, 8 => U8)
    };
}
